#!/bin/bash
# tools/mutcheck_par.sh <patch.diff> <tag> <ID> [<ID>...]
# Like mutcheck.sh but on a scratch copy of /repo's HEAD (VERIF_REPO) with a private evidence dir, so several
# seeded changes can be checked concurrently without touching /repo or /verif/evidence.
set -u
patch=$(readlink -f "$1"); tag=$2; shift 2
M=/tmp/vm/mc_$tag; EV=/tmp/vm/ev_$tag
rm -rf "$M" "$EV"; mkdir -p "$M" "$EV"
git -C /repo archive HEAD | tar -x -C "$M"
(cd "$M" && patch -p1 -s < "$patch") || { echo "$tag: patch does not apply"; exit 2; }
cd /verif
for id in "$@"; do
  out=$(VERIF_REPO=$M VERIF_EVIDENCE_DIR=$EV VERIF_NPROC=${VERIF_NPROC:-8} timeout 2400 ./check "$id" --tier ${VERIF_TIER:-quick} 2>&1); rc=$?
  nv=$(printf '%s\n' "$out" | grep -c '^VIOLATION')
  if [ $rc -eq 1 ] && [ "$nv" -gt 0 ]; then verdict=DETECTED; elif [ $rc -eq 0 ]; then verdict=MISSED; else verdict="BROKEN($rc)"; fi
  echo "== $tag $id $verdict violations=$nv :: $(printf '%s\n' "$out" | grep -A1 '^VIOLATION' | grep signature | head -3 | tr '\n' ' ' | cut -c1-300)"
  if [ "$verdict" != DETECTED ]; then printf '%s\n' "$out" | tail -3 | cut -c1-300; fi
done
rm -rf "$M" "$EV"
