#!/bin/bash
# tools/seeded_sweep.sh [P]  - re-run every seeded change against its property's current quick check (P in parallel),
# and refresh check.verdict_now / check.output in each meta.json
cd "$(dirname "$(readlink -f "$0")")/.." || exit 2
P=${1:-3}
ls -d seeded/*/ | while read d; do t=$(basename $d); echo "$t"; done | xargs -P $P -I{} bash -c '
  t={}; pid=${t:0:3}
  checks=$(/venv/bin/python -c "import json,sys; m=json.load(open(\"seeded/$t/meta.json\")); c=m[\"check\"][\"command\"].split(\"(equivalent\")[0].split(); print(\" \".join(c[3:]))")
  out=$(tools/mutcheck_par.sh seeded/$t/patch.diff $t $checks 2>&1)
  /venv/bin/python - "$t" <<PY
import json,sys
t=sys.argv[1]
out="""'"$out"'""" if False else open("/dev/stdin").read() if False else None
PY
  printf "%s\n" "$out" > /tmp/vm/sweep_$t.out
  v=MISSED; echo "$out" | grep -q " DETECTED " && v=DETECTED; echo "$out" | grep -q "BROKEN\|does not apply" && ! echo "$out" | grep -q " DETECTED " && v=BROKEN
  /venv/bin/python -c "
import json
p=\"seeded/$t/meta.json\"; m=json.load(open(p)); m[\"check\"][\"verdict_now\"]=\"$v\"; m[\"check\"][\"output\"]=open(\"/tmp/vm/sweep_$t.out\").read()[:1500]; json.dump(m,open(p,\"w\"),indent=1)"
  echo "$t $v"
'
