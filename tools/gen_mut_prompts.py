#!/venv/bin/python
"""Writes one sub-agent prompt per property to /tmp/mutprompts/<id>.txt (property text + sandbox facts + one-line
summaries of the changes already delivered for it, so that a new wave is different in kind).  Nothing about the
checks themselves is disclosed."""
import os
os.makedirs("/tmp/mutprompts", exist_ok=True)
import json,glob,os
props=[json.loads(l) for l in open('/verif/properties.jsonl')]
taken={}
for d in sorted(glob.glob('/verif/seeded/*/meta.json')):
    m=json.load(open(d)); taken.setdefault(m['property'],[]).append(((m.get('summary') or '')[:400], m.get('files_changed')))
T='''You are helping evaluate a verification effort by playing the role of a developer who introduces a subtle regression.

Repository under study: bowman-lab/enspara (a Python/Cython library for Markov state models of molecular dynamics). You have your OWN scratch git worktree of it at {W} (detached HEAD). Work ONLY there and in sibling scratch directories named {W}_*; never touch /repo, and do NOT read or list anything under /verif (it must stay unknown to you so that your work is independent).

THE PROPERTY (a semantic guarantee the library is supposed to give):
  id: {id}
  title: {title}
  statement: {statement}
  quantified over: {quant}
  code anchors: {files}
  mechanisms meant to make it hold: {mech}

YOUR TASK: produce TWO independent source changes ("mutant A" and "mutant B", different mechanisms / code sites) to the library, each of which
  (1) BREAKS the property above,
  (2) still compiles/imports, and still passes the repository's existing test suite exactly as before (see below),
  (3) looks like a realistic mistake a developer could make in a refactor, optimisation or "cleanup" (off-by-one, wrong axis, stale cache/scratch hoisted to module scope, missing copy, swapped comparison, wrong default, dropped argument, tie/boundary handling, in-place op on an input, dtype narrowing, integer vs float division, view vs copy, wrong broadcasting, loop bounds, early exit, ...), touching few lines,
  (4) needs something SPECIFIC to manifest - a particular input shape/boundary value, an unusual but legal argument combination, a multi-step sequence of operations, a particular thread count/schedule or worker order, particular heap contents, or two cooperating sites - i.e. NOT something that ordinary happy-path use (or the existing tests) would expose at once.
For each mutant also write a small demonstration program that fails with the change and passes without it.

ALREADY TAKEN - other developers have already delivered the following changes for this property; yours must be genuinely DIFFERENT (different code site AND different trigger), aim at a different clause of the property statement, and if possible at a different file among the anchors:
{taken}

ENVIRONMENT FACTS (this sandbox is offline; read carefully, they save you a lot of time):
  * Interpreter with all dependencies: /venv/bin/python (3.12). A DIFFERENT, older compiled enspara is installed in its site-packages, so always put your tree first on sys.path/PYTHONPATH and check enspara.__file__.
  * The three Cython extensions (enspara/geometry/libdist.pyx, enspara/info_theory/libinfo.pyx, enspara/msm/libmsm.pyx) are NOT built in the worktree, and `from mpi4py import MPI` raises RuntimeError here (no libmpi). Hence `import enspara.cluster`, `enspara.msm`, `enspara.info_theory`, `enspara.mpi` fail in the bare worktree; only enspara.ra, enspara.util.load, enspara.tpt (partly), enspara.geometry.rotamer import there.
  * EXISTING TEST SUITE (the baseline you must not change): run it in the bare worktree, WITHOUT building anything into it:
        cd {W} && /venv/bin/python -m pytest -ra -q -p no:cacheprovider --timeout=900 --continue-on-collection-errors 2>&1 | tail -5
    The normal result in this sandbox is exactly "1 failed, 47 passed, ... 20 errors" (the failure test_rotamer_assignment and the 20 collection errors are pre-existing and expected). With your change applied it must still be 47 passed / same 1 failed / same 20 errors. NEVER leave a built .so or build/ directory inside {W} (it changes what the suite collects).
  * To actually RUN library code that needs the compiled extensions or enspara.cluster/msm/info_theory, use a build copy:
        rsync -a --exclude .git {W}/ {W}_build/ && cd {W}_build && /venv/bin/python setup.py build_ext --inplace >/dev/null 2>&1   (about 1 minute)
        mkdir -p {W}_stub/mpi4py && touch {W}_stub/mpi4py/__init__.py      # empty stub: makes enspara fall back to its serial dummy communicator
        PYTHONPATH={W}_stub:{W}_build /venv/bin/python your_script.py
    Re-sync (rsync again) after editing sources; re-run build_ext only if you changed a .pyx file. Make a second copy ({W}_orig) when you need the unmodified behaviour for comparison. OMP_NUM_THREADS=1 makes small calls much faster.
  * For MPI code paths there is no MPI runtime: write your own small stand-in for `mpi4py.MPI` (COMM_WORLD with Get_rank/Get_size/bcast/Bcast/allgather/allreduce/Barrier, MPI.SUM/MPI.MAX, one thread per rank with thread-local rank) inside your scratch directories if you need more than the serial dummy communicator.
  * /tmp is the only place you may write besides {W}. Remove {W}_build, {W}_orig, {W}_stub etc. when you are done.
  * Your demo scripts sit inside the unbuilt worktree: make them drop their own directory from sys.path so that the tree named on PYTHONPATH is the one imported, and print enspara.__file__.

DELIVERABLES - leave exactly these files in {W} (and leave the worktree's tracked files UNMODIFIED at the end, i.e. `git -C {W} status --short` shows only the new untracked files):
  mutantA.diff   - unified diff (`git diff` output, applicable with `git apply`/`patch -p1` from the repo root) of mutant A
  demoA.py       - standalone script: `PYTHONPATH=<stub>:<built tree> /venv/bin/python demoA.py` exits 0 and prints OK on the unmodified tree, exits 1 and prints what went wrong on the mutated tree. It must only use the library's public/regular API and check the PROPERTY (not implementation details). It must finish within about a minute.
  metaA.json     - {{"property": "{id}", "summary": "...", "needs_to_manifest": "...", "files_changed": [...], "baseline_result_with_change": "<tail of the pytest run>", "demo_result_with_change": "...", "demo_result_without_change": "..."}}
  mutantB.diff, demoB.py, metaB.json  - same for mutant B
You must actually run everything you claim (baseline suite with each mutant applied; each demo on both trees) and put the observed output in the meta files. If you cannot find a second good mutant, deliver one and say so. If while reading the code you notice behaviour of the UNMODIFIED library that already violates the property, mention it in your final report (do not use it as a mutant).

Finish with a short report: for each mutant, the changed lines, why it breaks the property, and what it needs in order to manifest.
'''
for p in props:
    pid=p['id']; W='/tmp/mut/%s'%pid
    tk='\n'.join('  - %s (files: %s)'%(s.replace('\n',' '),f) for s,f in taken.get(pid,[])) or '  (none yet)'
    txt=T.format(W=W,id=pid,title=p['title'],statement=p['statement'],quant=p['quantifier']['text'],files=', '.join(p['anchors']['files']),
                 mech='; '.join('%s (%s)'%(m['name'],m.get('where','')) for m in p['anchors']['mechanism']), taken=tk)
    open('/tmp/mutprompts/%s.txt'%pid,'w').write(txt)
print('prompts written to /tmp/mutprompts')
