#!/bin/bash
# tools/verify_mutant.sh <worktree dir of the agent> <A|B>
# Independently confirms a seeded change: (1) the pinned suite still gives 47 passed with it, (2) the agent's
# demonstration fails with it and passes without it.  Everything happens in scratch copies under /tmp/vm.
set -u
W=$(readlink -f "$1"); X=$2
id=$(basename "$W")
patch="$W/mutant$X.diff"; demo="$W/demo$X.py"
[ -f "$patch" ] && [ -f "$demo" ] || { echo "$id$X: missing deliverables"; exit 2; }
mkdir -p /tmp/vm/stub/mpi4py; touch /tmp/vm/stub/mpi4py/__init__.py
# shared unmodified build
if [ ! -f /tmp/vm/orig_build/.built ]; then
  ( flock 9
    if [ ! -f /tmp/vm/orig_build/.built ]; then
      rm -rf /tmp/vm/orig_build; mkdir -p /tmp/vm/orig_build
      git -C /repo archive HEAD | tar -x -C /tmp/vm/orig_build
      (cd /tmp/vm/orig_build && /venv/bin/python setup.py build_ext --inplace >/dev/null 2>&1) && touch /tmp/vm/orig_build/.built
    fi ) 9>/tmp/vm/.lock
fi
M=/tmp/vm/${id}${X}
rm -rf "$M" "${M}_build"; mkdir -p "$M"
git -C /repo archive HEAD | tar -x -C "$M"
(cd "$M" && git apply --unsafe-paths --directory="$M" "$patch" 2>/dev/null || patch -p1 -s < "$patch") || { echo "$id$X: patch does not apply"; exit 2; }
base=$(cd "$M" && timeout 1500 /venv/bin/python -m pytest -q -p no:cacheprovider --timeout=900 --continue-on-collection-errors 2>&1 | tail -1)
rsync -a /tmp/vm/orig_build/ "${M}_build/"
(cd "${M}_build" && (git apply --unsafe-paths --directory="${M}_build" "$patch" 2>/dev/null || patch -p1 -s < "$patch"))
if grep -q '\.pyx' "$patch"; then (cd "${M}_build" && /venv/bin/python setup.py build_ext --inplace >/dev/null 2>&1); fi
cd /tmp
OMP_NUM_THREADS=1 PYTHONPATH=/tmp/vm/stub:/tmp/vm/orig_build timeout 600 /venv/bin/python "$demo" /tmp/vm/orig_build >/tmp/vm/${id}${X}.orig.out 2>&1; r0=$?
OMP_NUM_THREADS=1 PYTHONPATH=/tmp/vm/stub:${M}_build timeout 600 /venv/bin/python "$demo" "${M}_build" >/tmp/vm/${id}${X}.mut.out 2>&1; r1=$?
echo "$id$X baseline=[$base] demo_orig_rc=$r0 demo_mut_rc=$r1 :: $(tail -1 /tmp/vm/${id}${X}.mut.out | cut -c1-200)"
rm -rf "$M" "${M}_build"
