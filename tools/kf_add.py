#!/venv/bin/python
"""tools/kf_add.py <property> <fixed|open> <commit|-> <signature> <what...>  - append an entry to known_findings.json"""
import json, sys
prop, status, commit, sig = sys.argv[1:5]; what = ' '.join(sys.argv[5:])
p = '/verif/known_findings.json'; k = json.load(open(p))
e = {'property': prop, 'status': status}
if status == 'fixed':
    e['commit'] = commit; e['signature'] = sig; e['what'] = 'fixed: property=%s %s %s' % (prop, commit, what)
else:
    e['signature'] = sig; e['what'] = what
k['findings'].append(e); json.dump(k, open(p, 'w'), indent=1); print(len(k['findings']), 'entries')
