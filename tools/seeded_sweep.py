#!/venv/bin/python
"""tools/seeded_sweep.py [P] - re-run every seeded change (optionally only tags >= FROM) against its property's current quick check (P at a time)
and refresh check.verdict_now / check.output in each meta.json."""
import concurrent.futures as cf, glob, json, os, subprocess, sys
os.chdir(os.path.join(os.path.dirname(os.path.abspath(__file__)), '..'))
P = int(sys.argv[1]) if len(sys.argv) > 1 else 3


def one(d):
    t = os.path.basename(d.rstrip('/'))
    p = os.path.join(d, 'meta.json')
    m = json.load(open(p))
    if m.get('neutralised_by'):
        return t, m['check']['verdict_now']     # equivalent on the repaired tree (see meta.json); nothing to run
    checks = m['check']['command'].split('(equivalent')[0].split()[3:] or [t[:3]]
    out = subprocess.run(['tools/mutcheck_par.sh', os.path.join(d, 'patch.diff'), t] + checks, capture_output=True, text=True).stdout
    v = 'DETECTED' if ' DETECTED ' in out else ('BROKEN' if ('BROKEN' in out or 'does not apply' in out) else 'MISSED')
    m['check']['verdict_now'] = v
    m['check']['output'] = out[:1500]
    json.dump(m, open(p, 'w'), indent=1)
    return t, v


with cf.ThreadPoolExecutor(P) as ex:
    dirs = sorted(glob.glob('seeded/*/'))
    if len(sys.argv) > 2:                      # optional: only tags >= argv[2] (resume an interrupted sweep)
        dirs = [d for d in dirs if os.path.basename(d.rstrip('/')) >= sys.argv[2]]
    for t, v in ex.map(one, dirs):
        print(t, v, flush=True)
