#!/bin/bash
# tools/mutcheck.sh <patch.diff> <ID> [<ID> ...]
# Applies a seeded change to /repo, runs the quick checks of the given properties, restores /repo and the
# evidence files.  Prints one line per check: <ID> DETECTED|MISSED|BROKEN(exit) and the VIOLATION lines.
set -u
patch=$(readlink -f "$1"); shift
cd /verif || exit 2
if ! git -C /repo diff --quiet; then echo "/repo has uncommitted changes"; exit 2; fi
if ! git -C /repo apply --check "$patch" 2>/dev/null; then echo "patch does not apply: $patch"; exit 2; fi
save=$(mktemp -d /tmp/vfmut-XXXXXX)
cp -a evidence "$save/evidence"
git -C /repo apply "$patch"
trap 'git -C /repo checkout -- . ; rm -rf /verif/evidence; cp -a "$save/evidence" /verif/evidence; rm -rf "$save"' EXIT
for id in "$@"; do
  out=$(VERIF_TIER=${VERIF_TIER:-quick} timeout 1800 ./check "$id" 2>&1); rc=$?
  nv=$(printf '%s\n' "$out" | grep -c '^VIOLATION')
  if [ $rc -eq 1 ] && [ "$nv" -gt 0 ]; then verdict=DETECTED; elif [ $rc -eq 0 ]; then verdict=MISSED; else verdict="BROKEN($rc)"; fi
  echo "== $id $verdict violations=$nv"
  printf '%s\n' "$out" | grep -A2 '^VIOLATION' | cut -c1-400 | head -${MUT_LINES:-12}
  if [ "$verdict" != DETECTED ]; then printf '%s\n' "$out" | tail -4 | cut -c1-400; fi
done
