#!/venv/bin/python
"""Regenerates the machine-derived tables of DESIGN.md (between the BEGIN/END markers) from known_findings.json,
/repo's git log and seeded/*/meta.json."""
import glob, json, os, re, subprocess
V = os.path.join(os.path.dirname(os.path.abspath(__file__)), '..')
p = os.path.join(V, 'DESIGN.md')
s = open(p).read()
kf = json.load(open(os.path.join(V, 'known_findings.json')))['findings']
log = subprocess.check_output(['git', '-C', '/repo', 'log', '--reverse', '--format=%h %s']).decode().splitlines()
fixes = [l for l in log if ' fix:' in l]
t5 = "| # | property | `fix:` commit in /repo | what failed (smallest failing input / class) |\n|---|---|---|---|\n"
n = 0
for l in fixes:
    h, msg = l.split(' ', 1)
    ent = [f for f in kf if f['status'] == 'fixed' and f.get('commit') and (f['commit'].startswith(h) or h.startswith(f['commit']))]
    props = sorted({f['property'] for f in ent})
    what = ' // '.join(re.sub(r'^fixed: property=\S+ \S+ ', '', f['what']).replace('|', '/') for f in ent) or '(see commit message)'
    sigs = ', '.join('`%s`' % f['signature'] for f in ent)
    n += 1
    t5 += "| %d | %s | `%s` %s | %s %s |\n" % (n, ','.join(props) or '-', h, msg.replace('fix: ', '').replace('|', '/'), what, ('(signature ' + sigs + ')') if sigs else '')
t5 += "\nOpen (recorded, not repaired):\n\n| property | signature | finding and why it is not repaired |\n|---|---|---|\n"
for f in kf:
    if f['status'] == 'open':
        t5 += "| %s | `%s` | %s |\n" % (f['property'], f['signature'], f['what'].replace('|', '/'))
rows = ""
for d in sorted(glob.glob(os.path.join(V, 'seeded/*/meta.json'))):
    m = json.load(open(d)); tag = os.path.basename(os.path.dirname(d))
    sigs = re.findall(r'signature: (\S+)', m['check']['output'])
    rows += "| %s | %s | %s | %s | %s | %s |\n" % (tag, (m.get('summary') or '').replace('|', '/').replace('\n', ' ')[:220],
                                             (m.get('needs_to_manifest') or '').replace('|', '/').replace('\n', ' ')[:180],
                                             m['check']['verdict_first_run'], m['check']['verdict_now'], ', '.join('`%s`' % x for x in sigs[:2]))
t6 = "| id | change | needs | first | now | signatures reported |\n|---|---|---|---|---|---|\n" + rows
for name, body in (('TABLE5', t5), ('TABLE6', t6)):
    a, b = '<!-- BEGIN %s -->' % name, '<!-- END %s -->' % name
    i, j = s.index(a) + len(a), s.index(b)
    s = s[:i] + '\n' + body + s[j:]
open(p, 'w').write(s)
print('fix commits:', n, 'seeded:', rows.count('\n'))
