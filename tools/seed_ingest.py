#!/venv/bin/python
"""tools/seed_ingest.py <agent worktree> <A|B> <first verdict> -- copy a confirmed seeded change into /verif/seeded/<id><X>/
and record what was run (verification of the change itself + verdict of the property's quick check on /repo HEAD + it)."""
import json, os, shutil, subprocess, sys
W, X, first = sys.argv[1], sys.argv[2], sys.argv[3]
DST = sys.argv[4] if len(sys.argv) > 4 else X
CHECKS = sys.argv[5].split(',') if len(sys.argv) > 5 else None
pid = os.path.basename(W.rstrip('/'))
dst = '/verif/seeded/%s%s' % (pid, DST)
os.makedirs(dst, exist_ok=True)
shutil.copy(os.path.join(W, 'mutant%s.diff' % X), os.path.join(dst, 'patch.diff'))
shutil.copy(os.path.join(W, 'demo%s.py' % X), os.path.join(dst, 'demo.py'))
agent_meta = json.load(open(os.path.join(W, 'meta%s.json' % X)))
ver = subprocess.run(['/verif/tools/verify_mutant.sh', W, X], capture_output=True, text=True).stdout.strip()
chk = subprocess.run(['/verif/tools/mutcheck_par.sh', os.path.join(dst, 'patch.diff'), pid + DST] + (CHECKS or [pid]), capture_output=True, text=True).stdout.strip()
verdict = 'DETECTED' if ' DETECTED ' in chk else ('MISSED' if ' MISSED ' in chk else 'BROKEN')
meta = {
    'property': pid,
    'origin': 'fresh sub-agent given only the property text and its own scratch worktree (no access to /verif)',
    'summary': agent_meta.get('summary'),
    'needs_to_manifest': agent_meta.get('needs_to_manifest'),
    'files_changed': agent_meta.get('files_changed'),
    'confirmed_by_us': {
        'command': 'tools/verify_mutant.sh %s %s  (pinned suite on a copy with the change; demo on built original and built mutated copies)' % (W, X),
        'result': ver,
    },
    'check': {
        'command': 'tools/mutcheck_par.sh seeded/%s%s/patch.diff %s%s %s   (equivalent: git -C /repo apply ...; ./check %s; git -C /repo checkout -- .)' % (pid, DST, pid, DST, ' '.join(CHECKS or [pid]), pid),
        'verdict_first_run': first,
        'verdict_now': verdict,
        'output': chk[:1500],
    },
}
json.dump(meta, open(os.path.join(dst, 'meta.json'), 'w'), indent=1)
print(pid + DST, first, '->', verdict)
