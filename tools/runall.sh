#!/bin/bash
# tools/runall.sh [tier] [ids...]  - run checks sequentially, one summary line each
cd "$(dirname "$(readlink -f "$0")")/.." || exit 2
tier=${1:-quick}; shift
ids=${@:-C01 C02 C03 C04 C05 C06 C07 C08 C09 C10 C11 C12 C13 C14 C15 C16 C17 C18 C19 C20}
for id in $ids; do
  s=$(date +%s)
  out=$(./check $id --tier $tier 2>&1); rc=$?
  e=$(date +%s)
  echo "$id rc=$rc $((e-s))s $(printf '%s\n' "$out" | grep -c '^VIOLATION') violations; $(printf '%s\n' "$out" | grep "^$id tier" | cut -c1-160)"
  if [ $rc -ne 0 ]; then printf '%s\n' "$out" | grep -v '^  ' | head -8 | cut -c1-300; fi
done
