import argparse
import os
import sys


def main():
    ap = argparse.ArgumentParser(prog='check')
    ap.add_argument('pid')
    ap.add_argument('--tier', default=os.environ.get('VERIF_TIER') or 'quick',
                    choices=['quick', 'thorough'])
    ap.add_argument('--replay', default=None)
    ap.add_argument('--seed', type=int, default=None)
    a = ap.parse_args()
    seed = a.seed
    if seed is None:
        try:
            seed = int(os.environ.get('VERIF_SEED', '0'))
        except ValueError:
            seed = 0
    from . import core
    sys.exit(core.run_property(a.pid.upper(), a.tier, seed, a.replay))


if __name__ == '__main__':
    main()
