"""C18 - joint counts are exact and mutual information obeys its algebraic laws.

E1 over small feature trajectories (all arrays) x dtypes x layouts x n_x/n_y modes; rejection of bad ids
(run in a forked sacrificial child: a wild write is an observation, not a harness failure);
E2 over OpenMP schedules of matrix_bincount2d on the gompshim build + isolation (write-set) runs;
MI / normalisation / KL laws on every table reached and on all small count tables.
"""
import itertools
import math
import os
import pickle
import signal

import numpy as np

from .. import explore

ID = 'C18'
VARIANT = 'sched'
POISON_WORD = 0x7ff8000000000000
ENGINE = 'E2-choice-prefix-dfs'
TECHNIQUE = ('small-scope enumeration of feature trajectories / count tables against textbook definitions + choice-prefix DFS '
             'over OpenMP schedules of the real compiled joint-count kernel (deviation-bounded, with write-set isolation runs)')
RULE = ('X,Y: all integer arrays with frames<=3, features<=2, states<=3 for configurations with unequal feature and state counts '
        'x 8 integer dtypes (mixed pairs on a subset) x layouts {C,F,strided,negative stride} x n_x/n_y {None,exact,exact+1}; mixed integer widths with ids beyond the narrower type (127/128, 255/256, 300, 32767/32768); '
        'bad ids (-1, n, frame mismatch; an id >= its own side\'s n but < the other side\'s n when n_x != n_y) must be rejected (forked child), also -1 in a signed array next to an unsigned partner with a declared range that would hold its unsigned reinterpretation; uniform weights as 1/T, ones, a constant and integer multiplicities; schedules: T=1..4 threads, <=2 (T: <=4) deviations, '
        'isolation run per thread; MI laws on every table reached + all 2x2 and 2x3 tables over {0..3}; KL on all pairs of '
        'denominator-4 distributions (n=2,3); state=(X,Y,dtypes,layout,n mode | table | schedule); non-trivial = table with a '
        'zero cell and MI>0, or schedule with >1 enabled thread')
ASSUMPTIONS = ['MI/entropy identities compared at 1e-12 absolute (natural log)',
               'intra-chunk preemption covered by the write-set argument (per-thread partial count tables have disjoint support '
               'and sum to the total), not by enumeration',
               'NEP-49 poison allocator fills fresh numpy buffers with NaN during the run']
GUARDS = {'kl_tiny': 20, 'wide_ids': 50, 'unequal_sides': 500, 'mixed_dtype': 100, 'strided': 100, 'rejected_bad_ids': 50, 'unequal_declared_counts': 50, 'mixed_signedness': 4, 'multi_enabled': 50,
          'tables_with_zero_cell': 500, 'rectangular_norm': 50, 'pooled': 100, 'weighted': 100, 'kl_pairs': 200}
EXT = 'enspara.info_theory.libinfo'
DTYPES = ('int8', 'int16', 'int32', 'int64', 'uint8', 'uint16', 'uint32', 'uint64')
CONFIGS = ((1, 2, 2, 3), (2, 3, 1, 2), (2, 2, 1, 3), (1, 3, 1, 3), (2, 2, 2, 2))


def shards(tier, seed):
    sh = [('counts', tier, ci, T) for ci in range(len(CONFIGS)) for T in (1, 2, 3)]
    sh += [('reject', tier, 0, 0), ('sched', tier, 0, 0), ('tables', tier, 0, 0), ('tables', tier, 1, 0), ('kl', tier, 0, 0),
           ('norm', tier, 0, 0), ('self', tier, 0, 0), ('bigids', tier, 0, 0)]
    return sh


def arrays(T, f, n):
    for vals in itertools.product(range(n), repeat=T * f):
        yield np.array(vals).reshape(T, f)


def count_oracle(X, Y, nx, ny):
    T, fx = X.shape
    fy = Y.shape[1]
    jc = np.zeros((fx, fy, nx, ny), dtype=np.int64)
    for t in range(T):
        for a in range(fx):
            for b in range(fy):
                jc[a, b, X[t, a], Y[t, b]] += 1
    return jc


def entropy(p):
    return -sum(x * math.log(x) for x in p if x > 0)


def mi_oracle(tab):
    tab = np.asarray(tab, float)
    n = tab.sum()
    if n == 0:
        return 0.0
    P = tab / n
    px, py = P.sum(axis=1), P.sum(axis=0)
    s = 0.0
    for u in range(P.shape[0]):
        for v in range(P.shape[1]):
            if P[u, v] > 0:
                s += P[u, v] * math.log(P[u, v] / (px[u] * py[v]))
    return s


def relayout(A, lay):
    if lay == 'C':
        return np.ascontiguousarray(A)
    if lay == 'F':
        return np.asfortranarray(A)
    if lay == 'strided':
        base = np.zeros((2 * A.shape[0], 2 * A.shape[1]), dtype=A.dtype)
        base[::2, 1::2] = A
        return base[::2, 1::2]
    if lay == 'neg':
        base = np.ascontiguousarray(A[::-1, ::-1])
        return base[::-1, ::-1]
    raise ValueError(lay)


LAYS = ('C', 'F', 'strided', 'neg')


def check_counts(case, ctx):
    from enspara.info_theory import mutual_info as mi
    X0 = np.array(case['X'])
    Y0 = np.array(case['Y']) if case['Y'] is not None else None
    nx, ny = case['nx'], case['ny']
    dx, dy, lay, mode = case['dx'], case['dy'], case['layout'], case['nmode']
    ctx.ev()
    X = relayout(X0.astype(dx), lay)
    Y = relayout(Y0.astype(dy), lay) if Y0 is not None else None
    Yo = Y0 if Y0 is not None else X0
    if mode == 'none':
        ax, ay = None, None
        ex, ey = X0.max() + 1, Yo.max() + 1
    elif mode == 'exact':
        ax, ay = nx, ny
        ex, ey = nx, ny
    else:
        ax, ay = nx + 1, ny + 1
        ex, ey = nx + 1, ny + 1
    if Y0 is None:
        ay = None
        ey = ex
    want = count_oracle(X0, Yo, ex, ey)
    key = (X0.tobytes(), X0.shape, None if Y0 is None else (Y0.tobytes(), Y0.shape), dx, dy, lay, mode)
    ctx.state(key, nontrivial=bool((want == 0).any() and want.max() > 0 and X0.shape[0] > 1))
    if Y0 is not None and (X0.shape[1] != Y0.shape[1] or nx != ny):
        ctx.guard('unequal_sides')
    if dx != dy:
        ctx.guard('mixed_dtype')
    if lay in ('strided', 'neg'):
        ctx.guard('strided')
    Xk = X.copy()
    try:
        jc = mi.joint_counts(X, Y, n_x=ax, n_y=ay)
    except Exception as e:
        ctx.violation('joint_counts:raises:%s' % type(e).__name__, case, 'joint_counts raised %r on %r' % (e, case))
        return None
    jc = np.asarray(jc)
    if jc.shape != want.shape or not np.array_equal(jc.astype(np.int64), want):
        ctx.violation('joint_counts:value:%s' % ('mixed' if dx != dy else dx), case, 'got %r want %r (%r)' % (jc.tolist(), want.tolist(), case))
        return None
    if not np.array_equal(X, Xk):
        ctx.violation('joint_counts:mutates_input', case, 'X modified')
    return jc


def check_mi_laws(jc, case, ctx, X0=None, nstates=None):
    """laws on a 4-D table (fx, fy, nx, ny)"""
    from enspara.info_theory import mutual_info as mi
    ctx.ev()
    try:
        M = mi.mutual_information(jc.copy())
    except Exception as e:
        ctx.violation('mutual_information:raises:%s' % type(e).__name__, case, 'raised %r on table %r' % (e, jc.tolist()))
        return None
    fx, fy = jc.shape[:2]
    if M.shape != (fx, fy) or not np.isfinite(M).all():
        ctx.violation('mutual_information:invalid', case, 'MI=%r for table %r' % (M, jc.tolist()))
        return None
    for a in range(fx):
        for b in range(fy):
            tab = jc[a, b]
            if (tab == 0).any() and tab.sum() > 0:
                ctx.guard('tables_with_zero_cell')
            want = mi_oracle(tab)
            if abs(M[a, b] - want) > 1e-12:
                ctx.violation('mutual_information:value', case, 'MI=%r, definition gives %r for table %r' % (M[a, b], want, tab.tolist()))
                return None
            n = tab.sum()
            if n > 0:
                hx = entropy(tab.sum(axis=1) / n)
                hy = entropy(tab.sum(axis=0) / n)
                if M[a, b] < -1e-12 or M[a, b] > min(hx, hy) + 1e-12:
                    ctx.violation('mutual_information:bounds', case, 'MI=%r not in [0, min(H)=%r] for %r' % (M[a, b], min(hx, hy), tab.tolist()))
    return M


def check_self(case, ctx):
    """X against itself: symmetry, diagonal = entropy, relabelling / frame permutation invariance, weighted == unweighted"""
    from enspara.info_theory import mutual_info as mi
    X = np.array(case['X'])
    n = case['n']
    T, f = X.shape
    ctx.ev()
    ctx.state(('self', X.tobytes(), X.shape, n))
    try:
        jc = np.asarray(mi.joint_counts(X.astype('int32'), n_x=n))
        M = mi.mutual_information(jc)
    except Exception as e:
        ctx.violation('self_mi:raises:%s' % type(e).__name__, case, repr(e))
        return
    if np.abs(M - M.T).max() > 1e-12:
        ctx.violation('self_mi:not_symmetric', case, 'MI(X,X)=%r' % M.tolist())
    for i in range(f):
        h = entropy(np.bincount(X[:, i], minlength=n) / T)
        if abs(M[i, i] - h) > 1e-12:
            ctx.violation('self_mi:diagonal_not_entropy', case, 'MI[%d,%d]=%r entropy %r' % (i, i, M[i, i], h))
    # relabel states of feature 0 by every permutation; permute frames
    for perm in itertools.permutations(range(n)):
        Xp = X.copy()
        Xp[:, 0] = np.array(perm)[X[:, 0]]
        Mp = mi.mutual_information(np.asarray(mi.joint_counts(Xp.astype('int32'), n_x=n)))
        if np.abs(Mp - M).max() > 1e-12:
            ctx.violation('self_mi:relabelling_changes_mi', case, 'perm %r: %r vs %r' % (perm, Mp.tolist(), M.tolist()))
            break
    for fp in itertools.permutations(range(T)):
        Mp = mi.mutual_information(np.asarray(mi.joint_counts(X[list(fp)].astype('int32'), n_x=n)))
        if np.abs(Mp - M).max() > 1e-12:
            ctx.violation('self_mi:frame_order_changes_mi', case, 'frame perm %r' % (fp,))
            break
    # weighted estimator with uniform weights
    for norm in (False, True):
        try:
            ref = M / math.log(n) if norm else M
            # uniform weights in every spelling: already normalised, all ones, any constant, integer multiplicities
            for wname, wv in (('1/T', np.full(T, 1.0 / T)), ('ones', np.ones(T)), ('const', np.full(T, 2.5)), ('int', np.full(T, 3, dtype=np.int64))):
                W = mi.weighted_mi(X.astype('int64'), wv, n_feature_states=np.full(f, n), normalize=norm)
                ctx.guard('weighted')
                if np.abs(W - ref).max() > 1e-12:
                    ctx.violation('weighted_mi:differs_from_unweighted:%s' % ('normalised' if wname == '1/T' else 'unnormalised'), case,
                                  'uniform weights %s: weighted %r vs %r (normalize=%r)' % (wname, W.tolist(), ref.tolist(), norm))
                    break
        except Exception as e:
            ctx.violation('weighted_mi:raises:%s' % type(e).__name__, case, 'weighted_mi raised %r on %r' % (e, case))
            break


def check_pooled(case, ctx):
    from enspara.info_theory import mutual_info as mi
    Xs = [np.array(x).astype('int16') for x in case['Xs']]
    Ys = [np.array(y).astype('int16') for y in case['Ys']]
    nx, ny = case['nx'], case['ny']
    ctx.ev()
    ctx.state(('pooled', tuple(x.tobytes() for x in Xs), tuple(y.tobytes() for y in Ys), nx, ny))
    fx, fy = Xs[0].shape[1], Ys[0].shape[1]
    tot = sum(count_oracle(x, y, nx, ny) for x, y in zip(Xs, Ys))
    want = np.array([[mi_oracle(tot[a, b]) for b in range(fy)] for a in range(fx)])
    try:
        M = mi.mi_matrix(Xs, Ys, np.full(fx, nx), np.full(fy, ny), normalize=False)
        ctx.guard('pooled')
        if np.abs(M - want).max() > 1e-12:
            ctx.violation('mi_matrix:not_pooled', case, 'mi_matrix %r, MI of summed counts %r' % (M.tolist(), want.tolist()))
    except Exception as e:
        ctx.violation('mi_matrix:raises:%s' % type(e).__name__, case, 'mi_matrix(normalize=False) raised %r on %r' % (e, case))
        return
    try:
        Mn = mi.mi_matrix(Xs, Ys, np.full(fx, nx), np.full(fy, ny), normalize=True)
        ref = want / math.log(min(nx, ny))
        if Mn.shape != want.shape or np.abs(Mn - ref).max() > 1e-12:
            ctx.violation('mi_matrix:normalized_value', case, 'normalized %r want %r' % (Mn.tolist(), ref.tolist()))
    except Exception as e:
        kind = 'rectangular' if fx != fy else 'square'
        ctx.violation('mi_matrix:normalize_raises:%s:%s' % (kind, type(e).__name__), case, 'mi_matrix(normalize=True) raised %r on %r' % (e, case))


def check_norm(ctx):
    from enspara.info_theory import mutual_info as mi
    for fx, fy in ((1, 1), (1, 2), (2, 1), (2, 2), (2, 3), (3, 2), (3, 3)):
        for nxv in itertools.product((2, 3, 5), repeat=fx):
            for nyv in itertools.product((2, 4), repeat=fy):
                ctx.ev()
                case = {'kind': 'norm', 'fx': fx, 'fy': fy, 'n_x': list(nxv), 'n_y': list(nyv)}
                ctx.state(('norm', fx, fy, nxv, nyv), nontrivial=fx != fy or nxv != nyv)
                M = (np.arange(fx * fy, dtype=float).reshape(fx, fy) + 1) / 10
                keep = M.copy()
                want = np.array([[M[i, j] / math.log(min(nxv[i], nyv[j])) for j in range(fy)] for i in range(fx)])
                if fx != fy:
                    ctx.guard('rectangular_norm')
                try:
                    got = mi.channel_capacity_normalization(M, np.array(nxv), np.array(nyv))
                except Exception as e:
                    ctx.violation('ccn:raises:%s:%s' % ('rectangular' if fx != fy else 'square', type(e).__name__), case,
                                  'channel_capacity_normalization raised %r on %r' % (e, case))
                    continue
                if got.shape != want.shape or np.abs(got - want).max() > 1e-12:
                    ctx.violation('ccn:value:%s' % ('rectangular' if fx != fy else 'asymmetric_square'), case,
                                  'got %r want mi/ln(min(n_x[i],n_y[j])) = %r (%r)' % (got.tolist(), want.tolist(), case))
                if not np.array_equal(M, keep):
                    ctx.violation('ccn:mutates_input', case, 'mi modified in place')
    ctx.sample(case)


def check_kl(ctx):
    from enspara.info_theory import entropy as ent
    for n, den in ((2, 4), (3, 4), (3, 3)):
        dists = [np.array(t) / den for t in itertools.product(range(den + 1), repeat=n) if sum(t) == den]
        for P in dists:
            for Q in dists:
                ctx.ev()
                ctx.guard('kl_pairs')
                case = {'kind': 'kl', 'P': P.tolist(), 'Q': Q.tolist()}
                ctx.state(('kl', tuple(P), tuple(Q)), nontrivial=bool((P == 0).any() or (Q == 0).any()))
                try:
                    d = float(ent.kl_divergence(P.copy(), Q.copy(), base=math.e))
                except Exception as e:
                    ctx.violation('kl:raises:%s' % type(e).__name__, case, repr(e))
                    continue
                want = sum((p * math.log(p / q) if q > 0 else math.inf) for p, q in zip(P, Q) if p > 0)
                same = bool(np.array_equal(P, Q))
                if not (d >= -1e-12) or (same and abs(d) > 1e-12) or (not same and not d > 1e-12):
                    ctx.violation('kl:sign_law', case, 'KL(%r||%r)=%r' % (P.tolist(), Q.tolist(), d))
                elif (math.isinf(want) != math.isinf(d)) or (not math.isinf(want) and abs(d - want) > 1e-12):
                    ctx.violation('kl:value', case, 'KL=%r want %r' % (d, want))
        # probabilities that are tiny but not zero (1e-9, 1e-12, 1e-300) are still probabilities
        for eps in (1e-9, 1e-12, 1e-300):
            for Pv, Qv in (([1 - eps, eps] + [0] * (n - 2), [1.0, 0.0] + [0] * (n - 2)),
                           ([eps, 1 - eps] + [0] * (n - 2), [0.5, 0.5] + [0] * (n - 2)),
                           ([0.5, 0.5] + [0] * (n - 2), [1 - eps, eps] + [0] * (n - 2))):
                P, Q = np.array(Pv, float), np.array(Qv, float)
                ctx.ev()
                ctx.guard('kl_tiny')
                case = {'kind': 'kl', 'P': P.tolist(), 'Q': Q.tolist()}
                ctx.state(('kl', tuple(P), tuple(Q)), nontrivial=True)
                try:
                    d = float(ent.kl_divergence(P.copy(), Q.copy(), base=math.e))
                except Exception as e:
                    ctx.violation('kl:raises:%s' % type(e).__name__, case, repr(e))
                    continue
                want = sum((p * math.log(p / q) if q > 0 else math.inf) for p, q in zip(P, Q) if p > 0)
                if not (d >= -1e-15) or (math.isinf(want) != math.isinf(d)) or (not math.isinf(want) and abs(d - want) > 1e-12 * max(1.0, abs(want))):
                    ctx.violation('kl:tiny_probabilities', case, 'KL(%r||%r) = %r, definition gives %r' % (P.tolist(), Q.tolist(), d, want))
        # batched rows
        P2 = np.array(dists[:4])
        Q2 = np.array(dists[1:5])
        d2 = ent.kl_divergence(P2, Q2, base=math.e)
        for i in range(4):
            d1 = ent.kl_divergence(P2[i], Q2[i], base=math.e)
            if not (d1 == d2[i] or (math.isinf(d1) and math.isinf(d2[i]))):
                ctx.violation('kl:rows', {'kind': 'kl'}, 'row-wise %r vs %r' % (d2[i], d1))
    ctx.sample(case)


def in_child(fn):
    """run fn() in a forked child; returns ('ok', value) | ('raised', repr) | ('crashed', signal)"""
    r, w = os.pipe()
    pid = os.fork()
    if pid == 0:
        try:
            os.close(r)
            os.dup2(os.open(os.devnull, os.O_WRONLY), 2)    # glibc abort messages of a corrupted child are expected noise
            try:
                out = ('ok', fn())
            except BaseException as e:
                out = ('raised', '%s: %s' % (type(e).__name__, e))
            os.write(w, pickle.dumps(out))
        finally:
            os._exit(0)
    os.close(w)
    data = b''
    while True:
        chunk = os.read(r, 65536)
        if not chunk:
            break
        data += chunk
    os.close(r)
    _, status = os.waitpid(pid, 0)
    if os.WIFSIGNALED(status):
        return ('crashed', os.WTERMSIG(status))
    if not data:
        return ('crashed', -1)
    return pickle.loads(data)


def check_reject(ctx):
    from enspara.info_theory import mutual_info as mi
    good = np.array([[0, 1], [1, 0], [1, 1]])
    cases = []
    for dt in ('int8', 'int16', 'int32', 'int64'):
        for pos in ((0, 0), (2, 1), (1, 0)):
            for side in ('X', 'Y'):
                cases.append(('negative_id', dt, pos, side, -1))
                cases.append(('negative_id', dt, pos, side, -3))
    for dt in DTYPES:
        for pos in ((0, 0), (2, 1)):
            for side in ('X', 'Y'):
                cases.append(('id_too_large', dt, pos, side, 2))
                cases.append(('id_too_large', dt, pos, side, 7))
    for kind, dt, pos, side, val in cases:
        X = good.astype(dt).copy()
        Y = good.astype(dt).copy()
        (X if side == 'X' else Y)[pos] = val
        case = {'kind': 'reject', 'what': kind, 'dtype': dt, 'pos': list(pos), 'side': side, 'value': val}
        ctx.ev()
        ctx.state(('reject', kind, dt, pos, side, val), nontrivial=True)

        def run(X=X, Y=Y):
            jc = mi.joint_counts(X, Y, n_x=2, n_y=2)
            return np.asarray(jc).tolist()
        res = in_child(run)
        if res[0] == 'raised':
            ctx.guard('rejected_bad_ids')
        elif res[0] == 'crashed':
            ctx.violation('joint_counts:%s:crash' % kind, case, 'process died with signal %r on %r' % (res[1], case))
        else:
            ctx.violation('joint_counts:%s:accepted' % kind, case, 'state id %d accepted with n=2; table %r (%r)' % (val, res[1], case))
    # sides with DIFFERENT declared state counts: an id that is too large for its own side but smaller than the other
    # side's count must still be rejected (each side is checked against its own n)
    for dt in ('int8', 'int32', 'int64', 'uint8', 'uint16'):
        for nx, ny in ((5, 3), (3, 5), (2, 4), (7, 2)):
            for side in ('X', 'Y'):
                own, other = (nx, ny) if side == 'X' else (ny, nx)
                if own >= other:
                    continue
                for val in range(own, other):
                    for pos in ((0, 0), (2, 1), (1, 1)):
                        X = (np.arange(6).reshape(3, 2) % nx).astype(dt)
                        Y = (np.arange(6).reshape(3, 2)[::-1] % ny).astype(dt)
                        (X if side == 'X' else Y)[pos] = val
                        case = {'kind': 'reject', 'what': 'id_too_large_for_own_side', 'dtype': dt, 'pos': list(pos), 'side': side, 'value': val,
                                'n_x': nx, 'n_y': ny}
                        ctx.ev()
                        ctx.state(('reject', 'own_side', dt, pos, side, val, nx, ny), nontrivial=True)
                        res = in_child(lambda X=X, Y=Y, nx=nx, ny=ny: np.asarray(mi.joint_counts(X, Y, n_x=nx, n_y=ny)).tolist())
                        if res[0] == 'raised':
                            ctx.guard('rejected_bad_ids')
                            ctx.guard('unequal_declared_counts')
                        elif res[0] == 'crashed':
                            ctx.violation('joint_counts:id_too_large_for_own_side:crash', case, 'process died with signal %r on %r' % (res[1], case))
                        else:
                            ctx.violation('joint_counts:id_too_large_for_own_side:accepted', case,
                                          'state id %d on side %s accepted with n_x=%d n_y=%d; table %r' % (val, side, nx, ny, res[1]))
    # mixed signed / unsigned element types: a negative id must be rejected even when the declared range is large enough to
    # hold its unsigned reinterpretation (-1 -> 255 / 65535 / ...), and a valid large unsigned id must still be counted
    for sdt, udt, big in (('int8', 'uint8', 255), ('int16', 'uint16', 65535), ('int8', 'uint16', 255), ('int32', 'uint32', 70000), ('int64', 'uint64', 70000)):
        for side in ('X', 'Y'):
            for n_big in (big + 1, big + 45):
                S = np.array([[0], [-1], [1]], dtype=sdt)
                U = np.array([[0], [1], [1]], dtype=udt)
                X, Y = (S, U) if side == 'X' else (U, S)
                nx, ny = (n_big, 2) if side == 'X' else (2, n_big)
                if n_big > 1000:
                    continue            # the table would be huge; the 8/16-bit pairs cover the mechanism
                case = {'kind': 'reject', 'what': 'negative_id_mixed_signedness', 'dtypes': [sdt, udt], 'side': side, 'n': n_big}
                ctx.ev()
                ctx.state(('reject', 'mixed_sign', sdt, udt, side, n_big), nontrivial=True)
                res = in_child(lambda X=X, Y=Y, nx=nx, ny=ny: np.argwhere(np.asarray(mi.joint_counts(X, Y, n_x=nx, n_y=ny)) > 0).tolist())
                if res[0] == 'raised':
                    ctx.guard('rejected_bad_ids')
                    ctx.guard('mixed_signedness')
                elif res[0] == 'crashed':
                    ctx.violation('joint_counts:negative_id_mixed_signedness:crash', case, 'process died with signal %r on %r' % (res[1], case))
                else:
                    ctx.violation('joint_counts:negative_id_mixed_signedness:accepted', case,
                                  'id -1 (%s) next to a %s partner accepted with n=%d; non-zero cells %r' % (sdt, udt, n_big, res[1]))
        # valid data: ids that only the unsigned type can hold, against a signed partner of the same width
        top = min(big, 300)
        U = np.array([[0], [top], [1]], dtype=udt)
        S = np.array([[0], [1], [1]], dtype=sdt)
        for X, Y, nx, ny in ((U, S, top + 1, 2), (S, U, 2, top + 1)):
            case = {'kind': 'reject', 'what': 'valid_large_unsigned_id', 'dtypes': [sdt, udt], 'top': top}
            ctx.ev()
            ctx.state(('accept', 'mixed_sign', sdt, udt, nx, ny), nontrivial=True)
            res = in_child(lambda X=X, Y=Y, nx=nx, ny=ny: sorted(map(tuple, np.argwhere(np.asarray(mi.joint_counts(X, Y, n_x=nx, n_y=ny)) > 0).tolist())))
            want = sorted((0, 0, int(a), int(b)) for a, b in zip(X[:, 0].tolist(), Y[:, 0].tolist()))
            if res[0] != 'ok':
                ctx.violation('joint_counts:valid_large_unsigned_id:%s' % res[0], case, 'valid ids up to %d (%s vs %s) were not counted: %r' % (top, udt, sdt, res))
            elif sorted(set(map(tuple, res[1]))) != sorted(set(want)):
                ctx.violation('joint_counts:valid_large_unsigned_id:wrong_cells', case, 'cells %r want %r' % (res[1], want))
    # frame-count mismatch
    for dt in ('int32', 'uint8'):
        ctx.ev()
        case = {'kind': 'reject', 'what': 'frame_mismatch', 'dtype': dt}
        ctx.state(('reject', 'frames', dt))
        res = in_child(lambda dt=dt: np.asarray(mi.joint_counts(good.astype(dt), good[:2].astype(dt), n_x=2, n_y=2)).tolist())
        if res[0] == 'raised':
            ctx.guard('rejected_bad_ids')
        else:
            ctx.violation('joint_counts:frame_mismatch:%s' % res[0], case, 'unequal frame counts: %r' % (res,))
        res = in_child(lambda dt=dt: np.asarray(mi.joint_counts(good[:2].astype(dt), good.astype(dt), n_x=2, n_y=2)).tolist())
        if res[0] != 'raised':
            ctx.violation('joint_counts:frame_mismatch:%s' % res[0], case, 'unequal frame counts (X shorter): %r' % (res,))
    ctx.sample(case)


def check_bigids(ctx):
    """mixed integer widths where the wider side uses ids the narrower type cannot hold"""
    from enspara.info_theory import mutual_info as mi
    import warnings
    idsets = ([0, 127, 128, 1], [255, 256, 0, 255], [300, 129, 300, 2], [32767, 32768, 5, 32768])
    for ids in idsets:
        for wide in ('int16', 'int32', 'int64', 'uint16', 'uint32'):
            if max(ids) > np.iinfo(wide).max:
                continue
            for narrow in ('int8', 'uint8', 'int16'):
                if np.dtype(narrow).itemsize >= np.dtype(wide).itemsize:
                    continue
                for wide_side in ('X', 'Y'):
                    ctx.ev()
                    ctx.guard('wide_ids')
                    W = np.array(ids, dtype=wide).reshape(-1, 1)
                    N = np.array([0, 1, 1, 0], dtype=narrow).reshape(-1, 1)
                    X, Y = (W, N) if wide_side == 'X' else (N, W)
                    case = {'kind': 'bigids', 'ids': ids, 'wide': wide, 'narrow': narrow, 'wide_side': wide_side}
                    ctx.state(('bigids', tuple(ids), wide, narrow, wide_side), nontrivial=True)
                    nx, ny = int(X.max()) + 1, int(Y.max()) + 1
                    want = count_oracle(X.astype(np.int64), Y.astype(np.int64), nx, ny)
                    for given in (False, True):
                        try:
                            with warnings.catch_warnings():
                                warnings.simplefilter('ignore')
                                jc = np.asarray(mi.joint_counts(X.copy(), Y.copy(), n_x=nx if given else None, n_y=ny if given else None))
                        except Exception as e:
                            ctx.violation('joint_counts:mixed_width:raises:%s' % type(e).__name__, case,
                                          'legal ids rejected: %r (%r)' % (e, case))
                            break
                        if jc.shape != want.shape or not np.array_equal(jc.astype(np.int64), want):
                            nz = np.argwhere(jc)
                            ctx.violation('joint_counts:mixed_width:value', case, 'non-zero cells %r, expected %r (%r)' % (
                                nz.tolist(), np.argwhere(want).tolist(), case))
                            break
    ctx.sample(case)


def check_sched(tier, ctx):
    from enspara.info_theory import libinfo
    from .. import sched
    bound = 2 if tier == 'quick' else 4
    rng_cases = []
    for fx, fy in ((1, 1), (1, 2), (2, 1), (3, 2), (4, 1)):
        X = (np.arange(3 * fx).reshape(3, fx) * 2 % 3).astype(np.int32)
        Y = (np.arange(3 * fy).reshape(3, fy) % 2).astype(np.int32)
        rng_cases.append((X, Y))
    for X, Y in rng_cases:
        fx = X.shape[1]
        want = count_oracle(X, Y, 3, 2)
        for T in range(1, max(fx, X.shape[0]) + 2):
            outcomes = {}
            multi = [0]

            def run(prefix, T=T):
                pts, res = sched.run_with_schedule(EXT, T, prefix, lambda: libinfo.matrix_bincount2d(X, Y, 3, 2))
                return pts, np.asarray(res).astype(np.int64).tobytes()

            def on_exec(choices, pts, outcome, T=T):
                ctx.ev()
                ctx.state(('sched', X.shape, Y.shape, T, choices), nontrivial=any(ne > 1 for ne, _ in pts))
                if any(ne > 1 for ne, _ in pts):
                    multi[0] += 1
                outcomes[outcome] = choices
                ctx.extra['schedules'] += 1

            explore.dfs_choices(run, bound, on_exec)
            ctx.guard('multi_enabled', multi[0])
            case = {'kind': 'sched', 'fx': fx, 'fy': Y.shape[1], 'T': T}
            if len(outcomes) != 1:
                ctx.violation('bincount:schedule_dependent', case, '%d distinct tables over schedules (T=%d)' % (len(outcomes), T))
            got = np.frombuffer(next(iter(outcomes)), dtype=np.int64).reshape(want.shape)
            if not np.array_equal(got, want):
                ctx.violation('bincount:value_under_threads', case, 'T=%d: %r want %r' % (T, got.tolist(), want.tolist()))
            if T > 1:
                parts = []
                for k in range(T):
                    _, res = sched.run_with_schedule(EXT, T, [], lambda: libinfo.matrix_bincount2d(X, Y, 3, 2), only=k)
                    parts.append(np.asarray(res).astype(np.int64))
                    ctx.ev()
                support = sum((p > 0).astype(int) for p in parts)
                # per-thread partial tables: feature rows owned by different threads must not overlap
                rows_touched = [set(np.nonzero(p.sum(axis=(1, 2, 3)))[0].tolist()) for p in parts]
                overlap = any(rows_touched[i] & rows_touched[j] for i in range(T) for j in range(i + 1, T))
                if overlap:
                    ctx.violation('bincount:write_sets_overlap', case, 'feature rows written by several threads: %r' % (rows_touched,))
                elif not np.array_equal(sum(parts), want):
                    ctx.violation('bincount:isolated_sum_differs', case, 'sum of per-thread partial tables != total')
    ctx.sample({'kind': 'sched', 'threads': 'T=1..fx+1', 'deviation_bound': bound})


def check_tables(which, tier, ctx):
    shapes = ((2, 2),) if which == 0 else ((2, 3),)
    for shp in shapes:
        for vals in itertools.product(range(4), repeat=shp[0] * shp[1]):
            if sum(vals) == 0:
                continue
            tab = np.array(vals, dtype=np.uint32).reshape(shp)
            case = {'kind': 'table', 'table': tab.tolist()}
            ctx.state(('table', shp, vals), nontrivial=bool((tab == 0).any() and mi_oracle(tab) > 1e-9))
            check_mi_laws(tab[None, None], case, ctx)
    ctx.sample(case)


def run_shard(sh, ctx):
    kind, tier, a, b = sh
    if kind == 'counts':
        fx, nx, fy, ny = CONFIGS[a]
        T = b
        Xs = list(arrays(T, fx, nx))
        Ys = list(arrays(T, fy, ny))
        if len(Xs) * len(Ys) > 6000:
            Ys = Ys[::max(1, len(Xs) * len(Ys) // 6000)]
        k = 0
        for X in Xs:
            for Y in Ys:
                k += 1
                dx = DTYPES[k % 8]
                dy = dx if k % 5 else DTYPES[(k // 5) % 8]
                lay = LAYS[(k // 3) % 4] if k % 3 == 0 else 'C'
                mode = ('none', 'exact', 'plus1')[k % 3]
                case = {'kind': 'counts', 'X': X.tolist(), 'Y': Y.tolist(), 'nx': nx, 'ny': ny, 'dx': dx, 'dy': dy,
                        'layout': lay, 'nmode': mode}
                if mode == 'exact' and (X.max() + 1 > nx or Y.max() + 1 > ny):
                    continue
                jc = check_counts(case, ctx)
                if jc is not None and k % 2 == 0:
                    check_mi_laws(jc.astype(np.int64), case, ctx)
                if k % 11 == 0 and T >= 2:
                    X2, Y2 = X[::-1].copy(), Y.copy()
                    check_pooled({'kind': 'pooled', 'Xs': [X.tolist(), X2.tolist()], 'Ys': [Y.tolist(), Y2.tolist()],
                                  'nx': nx, 'ny': ny}, ctx)
        ctx.sample(case)
    elif kind == 'self':
        for T in (1, 2, 3):
            for f, n in ((1, 2), (2, 2), (2, 3), (3, 2)):
                for X in arrays(T, f, n):
                    check_self({'kind': 'self', 'X': X.tolist(), 'n': n}, ctx)
                    case = {'kind': 'counts', 'X': X.tolist(), 'Y': None, 'nx': n, 'ny': n, 'dx': 'int16', 'dy': 'int16',
                            'layout': 'F', 'nmode': 'exact'}
                    check_counts(case, ctx)
        ctx.sample(case)
    elif kind == 'reject':
        check_reject(ctx)
    elif kind == 'bigids':
        check_bigids(ctx)
    elif kind == 'sched':
        check_sched(tier, ctx)
    elif kind == 'tables':
        check_tables(a, tier, ctx)
    elif kind == 'kl':
        check_kl(ctx)
    elif kind == 'norm':
        check_norm(ctx)


def replay(case, ctx):
    k = case['kind']
    if k == 'counts':
        jc = check_counts(case, ctx)
        if jc is not None:
            check_mi_laws(jc.astype(np.int64), case, ctx)
    elif k == 'self':
        check_self(case, ctx)
    elif k == 'pooled':
        check_pooled(case, ctx)
    elif k == 'table':
        check_mi_laws(np.array(case['table'], dtype=np.uint32)[None, None], case, ctx)
    elif k == 'reject':
        check_reject(ctx)
    elif k == 'bigids':
        check_bigids(ctx)
    elif k == 'sched':
        check_sched(ctx.tier, ctx)
    elif k == 'kl':
        check_kl(ctx)
    elif k == 'norm':
        check_norm(ctx)
