"""C12 - the reversible estimator is a true maximum-likelihood fixed point.

E1 over all small strongly connected count matrices (+ scaled / strongly asymmetric variants),
both implementations (pure Python and compiled), dense and csr.
"""
import itertools
import warnings

import numpy as np
import scipy.sparse as sp

from ..models import msmref as mr

ID = 'C12'
POISON_WORD = 0x7ff8000000000000
RULE = ('strongly connected count matrices: all n=2 over {0..3}, all n=3 over {0,1,2} (Q: compiled on all, python on every '
        '3rd; T: both on all, + n=3 over {0,1,5} and {0,1,50}, n=4 binary) + sampled n=3 matrices over {0,1,1e3,1e6} (six orders of magnitude) x scalings {1,0.5,1e-3,1e3} (scalings on every '
        '4th matrix) x {compiled _mle_prinz_dense, python _prinz_mle_py, public mle(dense), mle(csr)} x max_iter cap {1,2}; counts stored as int64/int32/int16/int8/uint8..uint64/float32 (every 9th matrix in Q, every 3rd in T, plus near-limit matrices whose pair sums exceed the dtype) must give the float64 model; '
        'state=(matrix,scale,implementation); non-trivial = asymmetric matrix with a zero entry')
ASSUMPTIONS = ['Prinz self-consistency residual tolerance 1e-4*sum(C) (estimator stops on 1e-10 change of its pseudo-likelihood)',
               'likelihood optimality checked against the transpose estimate and the finite family X +- delta*E_ij, '
               'delta in {1e-3,1e-2}*x_ij over every pair in the support (coordinate-wise optimality), slack 1e-8*sum(C)',
               'python vs compiled agreement tolerance 1e-4: both stop on a 1e-10 change of a (non-monotone) pseudo-likelihood evaluated with log vs log10, so they may stop a few sweeps apart; measured: compiled stops after 5 sweeps, 1.07e-5 from the fixed point on C=[[1,2,1],[2,0,1],[2,2,1]]']
GUARDS = {'storage_dtype': 100, 'pair_sums_beyond_dtype': 4, 'wide_range': 50, 'asymmetric': 500, 'with_zero_entry': 500, 'self_counts': 500, 'maxiter_cap_hit': 100, 'scaled': 100,
          'python_impl': 500, 'compiled_impl': 500, 'csr': 100}
NSH = {'quick': 64, 'thorough': 256}


def matrices(tier):
    out = []
    for C in mr.all_matrices(2, range(4)):
        out.append(C)
    for C in mr.all_matrices(3, (0, 1, 2)):
        out.append(C)
    if tier == 'thorough':
        for vals in ((0, 1, 5), (0, 1, 50)):
            for C in mr.all_matrices(3, vals):
                if (C == vals[2]).any():
                    out.append(C)
        for off in itertools.product((0, 1), repeat=12):
            C = np.zeros((4, 4), dtype=int)
            C[~np.eye(4, dtype=bool)] = off
            out.append(C)
            out.append(C + np.diag([2, 0, 1, 0]))
    else:
        for C in mr.all_matrices(3, (0, 1, 50)):
            if (C == 50).sum() == 2 and (C == 1).sum() >= 3:
                out.append(C)
    out = [C for C in out if mr.strongly_connected(C)]
    # counts spanning six orders of magnitude (a state entered very often that is left rarely, ...)
    wide = []
    k = 0
    for C in mr.all_matrices(3, (0, 1, 1000, 10 ** 6)):
        if C.max() == 10 ** 6 and (C == 1).any() and mr.strongly_connected(C):
            k += 1
            if k % (199 if tier == 'quick' else 5) == 0:
                wide.append(C)
    wide.append(np.array([[10 ** 6, 10 ** 6, 1], [1, 1, 1], [1, 1, 1000]]))      # the recorded open finding (py vs compiled)
    wide.append(np.array([[0, 717876, 0], [1, 567228, 1], [1157731, 0, 0]]))
    wide.append(np.array([[10, 4500000, 0, 0], [3, 1, 2000, 0], [0, 5, 1, 70000], [1, 0, 9, 20]]))
    return out + wide


def shards(tier, seed):
    return [('pinned', tier)] + [(tier, i) for i in range(NSH[tier])]


def run_impl(impl, C, **kw):
    from enspara.msm import builders
    if impl == 'py':
        return builders._prinz_mle_py(C.astype(float), **kw)
    if impl == 'c':
        return builders._prinz_mle(np.ascontiguousarray(C, dtype=np.float64), **kw)
    if impl == 'mle_dense':
        _, T, pi = builders.mle(C)
        return T, pi
    if impl == 'mle_csr':
        _, T, pi = builders.mle(sp.csr_matrix(C))
        return T.toarray(), pi
    raise ValueError(impl)


def prinz_residual(C, T, pi):
    """x_ij (c_i/x_i + c_j/x_j) = c_ij + c_ji with x_ij = pi_i T_ij (scale free: sum x = 1)"""
    X = pi[:, None] * T
    X = 0.5 * (X + X.T)
    xi = X.sum(axis=1)
    ci = C.sum(axis=1).astype(float)
    lhs = X * (ci / xi)[:, None] + X * (ci / xi)[None, :]
    rhs = C + C.T
    return float(np.abs(lhs - rhs).max())


def check_case(case, ctx, cache=None):
    from enspara import exception
    C = np.array(case['C'], dtype=float) * case['scale']
    impl = case['impl']
    n = len(C)
    tot = C.sum()
    ctx.ev()
    asym = not np.array_equal(C, C.T)
    zero = bool((C == 0).any())
    ctx.state((C.tobytes(), n, impl, case.get('max_iter')), nontrivial=asym and zero)
    if asym:
        ctx.guard('asymmetric')
    if zero:
        ctx.guard('with_zero_entry')
    if np.diag(C).any():
        ctx.guard('self_counts')
    if case['scale'] != 1:
        ctx.guard('scaled')
    ctx.guard({'py': 'python_impl', 'c': 'compiled_impl', 'mle_dense': 'python_impl', 'mle_csr': 'csr'}[impl])
    if case.get('max_iter'):
        # iteration cap: must return a model and warn, never fail internally
        with warnings.catch_warnings(record=True) as w:
            warnings.simplefilter('always')
            try:
                T, pi = run_impl(impl, C, max_iter=case['max_iter'])
            except Exception as e:
                ctx.violation('mle:maxiter:%s' % type(e).__name__, case, 'max_iter=%d raised %r (%r)' % (case['max_iter'], e, case))
                return
        ctx.guard('maxiter_cap_hit')
        # a run that used up its iterations must say so
        try:
            T_full, _ = run_impl(impl, C)
            converged_early = np.abs(np.asarray(T_full) - np.asarray(T)).max() < 1e-12
        except Exception:
            converged_early = True
        if not converged_early and not any(issubclass(x.category, exception.ConvergenceWarning) for x in w):
            ctx.violation('mle:maxiter:no_warning', case, 'iteration cap %d reached without ConvergenceWarning' % case['max_iter'])
        return
    with warnings.catch_warnings(record=True) as w:
        warnings.simplefilter('always')
        try:
            T, pi = run_impl(impl, C)
        except Exception as e:
            nz = C[C > 0]
            wide = nz.max() / nz.min() >= 1e5
            detail = ''
            if wide:
                ctx.guard('wide_range')
                # a row of X collapsing to 0 (NaN row in T) vs. any other internal failure
                detail = ':wide_range:' + ('nan_row' if 'nan' in str(e).lower() else 'other')
            ctx.violation('mle_%s:raises:%s%s' % (impl, type(e).__name__, detail), case, '%s raised %r on %r' % (impl, e, case))
            return
    warned = any(issubclass(x.category, exception.ConvergenceWarning) for x in w)
    T = np.asarray(T, float)
    pi = np.asarray(pi, float).ravel()
    nz = C[C > 0]
    if nz.max() / nz.min() >= 1e5:
        ctx.guard('wide_range')
    if T.shape != (n, n) or pi.shape != (n,) or not np.isfinite(T).all() or not np.isfinite(pi).all():
        ctx.violation('mle_%s:invalid_output' % impl, case, 'T=%r pi=%r' % (T.tolist(), pi.tolist()))
        return
    if np.abs(T.sum(axis=1) - 1).max() > 1e-12 or abs(pi.sum() - 1) > 1e-12 or (T < 0).any():
        ctx.violation('mle_%s:not_stochastic' % impl, case, 'rows %r pi sum %r' % (T.sum(axis=1).tolist(), pi.sum()))
    db = mr.detailed_balance_residual(T, pi)
    ctx.maxi('max_detailed_balance_residual', db)
    if db > 1e-9:
        ctx.violation('mle_%s:detailed_balance' % impl, case, 'residual %g (%r)' % (db, case))
    if warned:
        return      # not converged: the remaining clauses are only promised up to the convergence tolerance
    res = prinz_residual(C, T, pi)
    ctx.maxi('max_prinz_residual_over_sumC', res / tot)
    if res > 1e-4 * tot:
        ctx.violation('mle_%s:prinz_equations' % impl, case, 'self-consistency residual %g (sum C=%g) for %r' % (res, tot, case))
    # likelihood: transpose estimate and coordinate perturbations
    L = mr.loglik(C, T)
    S = C + C.T
    Tt = S / S.sum(axis=1, keepdims=True)
    worst = mr.loglik(C, Tt) - L
    X = pi[:, None] * T
    X = 0.5 * (X + X.T)
    for i in range(n):
        for j in range(i, n):
            if X[i, j] <= 0:
                continue
            for rel in (1e-3, 1e-2):
                for sgn in (1, -1):
                    X2 = X.copy()
                    X2[i, j] = X2[j, i] = X[i, j] * (1 + sgn * rel)
                    T2 = X2 / X2.sum(axis=1, keepdims=True)
                    worst = max(worst, mr.loglik(C, T2) - L)
    ctx.maxi('max_loglik_gap_over_sumC', worst / tot)
    if worst > 1e-8 * tot:
        ctx.violation('mle_%s:not_maximum_likelihood' % impl, case,
                      'a reversible competitor with the same support has log-likelihood higher by %g (%r)' % (worst, case))
    # agreement between the implementations
    if impl == 'c' and case.get('compare', True):
        try:
            Tp, pip = run_impl('py', C)
            d = max(np.abs(np.asarray(Tp) - T).max(), np.abs(np.asarray(pip).ravel() - pi).max())
            ctx.maxi('max_py_vs_c', d)
            ctx.guard('python_impl')
            if d > 1e-4:
                ctx.violation('mle:py_vs_c_disagree' + (':wide_range' if nz.max() / nz.min() >= 1e5 else ''), case, 'python and compiled estimators differ by %g on %r' % (d, case))
        except Exception as e:
            ctx.violation('mle_py:raises:%s' % type(e).__name__, case, 'python estimator raised %r on %r' % (e, case))


INT_DTYPES = ('int64', 'int32', 'int16', 'int8', 'uint8', 'uint16', 'uint32', 'uint64', 'float32')
NEAR_LIMIT = ((np.array([[100, 90], [80, 100]]), ('int8', 'uint8')), (np.array([[120, 7, 0], [90, 0, 120], [0, 100, 3]]), ('int8', 'uint8')),
              (np.array([[200, 90, 1], [80, 200, 3], [1, 2, 250]]), ('uint8', 'int16')),
              (np.array([[30000, 20000, 0], [1, 30000, 9], [32000, 0, 5]]), ('int16', 'uint16')),
              (np.array([[2 ** 31 - 5, 7], [2 ** 30, 2 ** 31 - 9]]), ('int32', 'uint32', 'int64')))


def check_storage_dtype(case, ctx):
    """the same counts stored in another (integer / narrow / unsigned) element type give the same model"""
    from enspara.msm import builders
    C = np.array(case['C'])
    dt, impl = case['dtype'], case['impl']
    Cd = C.astype(dt)
    if not np.array_equal(Cd.astype(float), C.astype(float)):
        return
    ctx.ev()
    ctx.guard('storage_dtype')
    if float(C.max()) * 2 > (np.iinfo(dt).max if np.dtype(dt).kind in 'iu' else 1e30):
        ctx.guard('pair_sums_beyond_dtype')
    ctx.state(('dtype', C.tobytes(), dt, impl), nontrivial=True)
    try:
        with warnings.catch_warnings():
            warnings.simplefilter('ignore')
            if impl == 'mle_dense':
                _, Tr, pr = builders.mle(C.astype(float))
                _, Td, pd_ = builders.mle(Cd)
            else:
                _, Tr, pr = builders.mle(sp.csr_matrix(C.astype(float)))
                _, Td, pd_ = builders.mle(sp.csr_matrix(Cd))
                Tr, Td = Tr.toarray(), Td.toarray()
    except Exception as e:
        ctx.violation('mle:storage_dtype:raises:%s' % type(e).__name__, case, 'counts stored as %s: %r (%r)' % (dt, e, case))
        return
    Tr, Td = np.asarray(Tr, float), np.asarray(Td, float)
    tol = 1e-9 if dt != 'float32' else 1e-6
    if Td.shape != Tr.shape or not np.isfinite(Td).all() or np.abs(Td - Tr).max() > tol or np.abs(np.asarray(pd_) - np.asarray(pr)).max() > tol:
        ctx.violation('mle:storage_dtype:value', case, 'counts stored as %s give\n%s\nbut as float64\n%s' % (dt, Td, Tr))


def run_shard(sh, ctx):
    if sh[0] == 'pinned':
        # the recorded input of the open finding (python vs compiled on wide-range counts)
        case = {'C': [[10 ** 6, 10 ** 6, 1], [1, 1, 1], [1, 1, 1000]], 'scale': 1, 'impl': 'c', 'compare': True}
        check_case(case, ctx)
        ctx.sample(case)
        return
    tier, i = sh
    ms = matrices(tier)
    if i < len(NEAR_LIMIT):
        for dt in NEAR_LIMIT[i][1]:
            for impl in ('mle_dense', 'mle_csr'):
                check_storage_dtype({'kind': 'dtype', 'C': NEAR_LIMIT[i][0].tolist(), 'dtype': dt, 'impl': impl}, ctx)
    for j in range(i, len(ms), NSH[tier]):
        C = ms[j]
        jj = j // NSH[tier]
        scales = (1, 0.5, 1e-3, 1e3) if jj % 4 == 0 else (1,)
        for scale in scales:
            cmp_py = (tier == 'thorough') or (jj % 3 == 0) or (C.max() >= 10 ** 5)
            case = {'C': C.tolist(), 'scale': scale, 'impl': 'c', 'compare': cmp_py}
            check_case(case, ctx)
            if scale == 1 and jj % 6 == 0:
                for impl in ('mle_dense', 'mle_csr'):
                    check_case({'C': C.tolist(), 'scale': scale, 'impl': impl}, ctx)
            if scale == 1 and jj % (9 if tier == 'quick' else 3) == 0 and np.array_equal(C, np.round(C)) and C.max() < 2 ** 31:
                for k, dt in enumerate(INT_DTYPES):
                    check_storage_dtype({'kind': 'dtype', 'C': C.astype(np.int64).tolist(), 'dtype': dt, 'impl': ('mle_dense', 'mle_csr')[(jj + k) % 2]}, ctx)
            if scale == 1 and jj % 5 == 0:
                for impl in ('c', 'py'):
                    for mi in (1, 2):
                        check_case({'C': C.tolist(), 'scale': 1, 'impl': impl, 'max_iter': mi}, ctx)
        if j % 211 == 0:
            ctx.sample(case)


def replay(case, ctx):
    if case.get('kind') == 'dtype':
        return check_storage_dtype(case, ctx)
    check_case(case, ctx)
