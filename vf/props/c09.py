"""C09 - k-medoids never worsens the cost and keeps centers in the data.

E3 explicit-state BFS over the PAM transition system of the REAL sweep function:
state = (medoid frames, labels, distances); transition = one real _kmedoids_pam_update sweep
with an explicit proposal list; from every reachable state EVERY proposal list in {0..n-1}^k.
Plus end-to-end monotonicity / reproducibility runs and the random-proposal path through a
recording RandomState.
"""
import itertools

import numpy as np

from .. import explore
from ..models import clusterref as cr

ID = 'C09'
ENGINE = 'E3-explicit-state-bfs'
TECHNIQUE = ('explicit-state BFS over the PAM transition system (real sweep function, every proposal list from '
             'every reachable state) + exhaustive end-to-end enumeration over seeds/sweep counts')
RULE = ('per data set (Q: all orderings of 4 of the 1-D lattice {0,1,2,4,7,11}, all 4-point orderings of two 2-D sets; '
        'T: + 5-point 1-D sets, 3x3 grid n=4) x metric {euclidean, manhattan, chebyshev} x k in {2,3}: initial states = '
        'k-centers state + nearest-center state of every k-subset; BFS depth 2 (T: 3) applying every proposal list in '
        '{0..n-1}^k through the real sweep; state key = (medoids, labels, distances); non-trivial = transition that '
        'accepted >=1 proposal; then kmedoids/hybrid for sweeps 0..3 x seeds {s,s+1,s+2} (also with the non-metric squared-euclidean callable, and on 5/6-point 1-D sets with k in {2,3,4}; hybrid with 0 sweeps must BE the k-centers solution); warm starts: every k-subset x every split of the frames '
        'into trajectories x 4 ways of supplying the state (flat ids, (traj,frame) pairs, labels+distances, all)')
ASSUMPTIONS = ['cost comparison tolerance 1e-12 relative', 'small-scope: n<=5 frames, k<=3',
               'random proposals observed through a recording RandomState subclass (no source hook)']
GUARDS = {'nonmetric_dissimilarity': 200, 'e2e_larger_sets': 200, 'warm_forms': 500, 'accepted': 500, 'rejected': 500, 'proposal_outside_cluster': 500, 'proposal_is_other_medoid': 100,
          'random_path_checked': 100, 'e2e_improved': 50}
NSH = {'quick': 48, 'thorough': 256}
METRICS = ('euclidean', 'manhattan', 'chebyshev')


def datasets(tier):
    out = [t for t in cr.lattice_sets([0, 1, 2, 4, 7, 11], 4, 4)]
    out += [t for t in cr.lattice_sets([(0, 0), (2, 0), (0, 1), (1, 2)], 4, 4)]
    out += [t for t in cr.lattice_sets([(0, 0), (1, 0), (3, 1), (1, 3)], 4, 4)]
    if tier == 'thorough':
        for sub in itertools.combinations([0, 1, 2, 4, 7, 11, 16], 5):
            for first in sub:
                rest = [x for x in sub if x != first]
                out.append((first,) + tuple(rest))
                out.append((first,) + tuple(rest[::-1]))
        out += [t for t in cr.lattice_sets(cr.grid((3, 3)), 4, 4)][::7]
    return out


def shards(tier, seed):
    return [(tier, i) for i in range(NSH[tier])]


def skey(st):
    med, lab, dist = st
    return (tuple(med), tuple(lab), tuple(np.round(dist, 12)))


def sweep(X, metric, st, proposals, random_state=None):
    from enspara.cluster import kmedoids as km
    med, lab, dist = st
    med_in = list(med)
    lab_in = np.array(lab, dtype=int)
    dist_in = np.array(dist, dtype=float)
    inds, d2, a2, centers = km._kmedoids_pam_update(
        X, cr.impl_metric(metric) if not callable(metric) else metric,
        med_in, lab_in, dist_in, proposals=proposals, random_state=random_state)
    mutated = (med_in != list(med) or not np.array_equal(lab_in, np.array(lab))
               or not np.array_equal(dist_in, np.array(dist, dtype=float)))
    return inds, d2, a2, centers, mutated


class Res:
    def __init__(self, ci, dist, lab, centers):
        self.center_indices, self.distances, self.assignments, self.centers = ci, dist, lab, centers


def check_transition(X, D, metric, st, proposals, ctx, case):
    """apply one real sweep; returns next state (or None if the harness could not continue)"""
    ctx.ev()
    med, lab, dist = st
    k = len(med)
    try:
        from enspara.geometry import libdist
        inds, d2, a2, centers, mutated = sweep(X, _metric_obj(metric), st, list(proposals))
    except Exception as e:
        ctx.violation('pam:raises:%s' % type(e).__name__, case, 'sweep raised %r on %r' % (e, case))
        return None
    if mutated:
        ctx.violation('pam:mutates_inputs', case, 'sweep modified its input state arrays (%r)' % (case,))
    bad = cr.check_result(X, D, Res(inds, d2, a2, centers), want_k=k)
    for clause, msg in bad:
        ctx.violation('pam:consistency:%s' % clause, case, '%s | %r' % (msg, case))
    if bad:
        return None
    c0, c1 = cr.cost(dist), cr.cost(d2)
    if c1 > c0 * (1 + 1e-12) + 1e-15:
        ctx.violation('pam:cost_increased', case, 'cost %.12g -> %.12g on %r' % (c0, c1, case))
    new = ([int(i) for i in inds], [int(a) for a in a2], [float(x) for x in d2])
    accepted = new[0] != list(med)
    if accepted:
        ctx.guard('accepted')
        if not (c1 < c0):
            ctx.violation('pam:accepted_without_gain', case, 'medoids changed %r -> %r but cost %.12g -> %.12g' % (
                med, new[0], c0, c1))
    else:
        ctx.guard('rejected')
        if new[1] != list(lab) or not np.array_equal(np.array(new[2]), np.array(dist, dtype=float)):
            ctx.violation('pam:rejected_sweep_changed_state', case,
                          'no proposal accepted but labels/distances changed: %r -> %r' % ((lab, dist), new[1:]))
    for cid, p in enumerate(proposals):
        if lab[p] != cid:
            ctx.guard('proposal_outside_cluster')
        if p in med and med[cid] != p:
            ctx.guard('proposal_is_other_medoid')
    return new


_MCACHE = {}


def _metric_obj(name):
    if name not in _MCACHE:
        from enspara.cluster import util
        _MCACHE[name] = util._get_distance_method(cr.impl_metric(name))
    return _MCACHE[name]


def explore_dataset(pts, metric, k, depth, ctx):
    X = cr.as_array(pts, 'float64')
    n = len(X)
    D = cr.dist_matrix(X, metric)
    from enspara.cluster import kcenters as kc
    inits = []
    r = kc.kcenters(X, cr.impl_metric(metric), n_clusters=k)
    inits.append(([int(c) for c in r.center_indices], [int(a) for a in r.assignments],
                  [float(d) for d in r.distances]))
    for sub in itertools.combinations(range(n), k):
        lab, dist = cr.nearest_state(D, sub)
        inits.append((list(sub), lab.tolist(), dist.tolist()))
    props = list(itertools.product(range(n), repeat=k))

    def step(st, prop):
        case = {'kind': 'sweep', 'pts': pts, 'metric': metric, 'state': st, 'proposals': list(prop)}
        return check_transition(X, D, metric, st, prop, ctx, case)

    def on_state(st, d):
        ctx.state(('pam', pts, metric, skey(st)), nontrivial=d > 0)

    stats = explore.bfs(inits, lambda s: props, step, skey, depth, on_state=on_state)
    ctx.extra['bfs_states'] += stats['states']
    ctx.maxi('max_depth', stats['max_depth'])
    return stats


class RecordingRS(np.random.RandomState):
    """RandomState that records every choice() call (arguments and result)."""

    def __init__(self, seed):
        super().__init__(seed)
        self.log = []

    def choice(self, a, *args, **kw):
        r = super().choice(a, *args, **kw)
        self.log.append((np.array(a).tolist(), int(r)))
        return r


def check_random_path(pts, metric, st, seed, ctx):
    """random proposals: (i) each drawn from the members of the cluster being updated at that
    moment, (ii) the sweep equals the explicit-proposal sweep with the drawn proposals."""
    X = cr.as_array(pts, 'float64')
    D = cr.dist_matrix(X, metric)
    case = {'kind': 'random', 'pts': pts, 'metric': metric, 'state': st, 'seed': seed}
    ctx.ev()
    rs = RecordingRS(seed)
    try:
        inds, d2, a2, centers, mutated = sweep(X, _metric_obj(metric), st, None, random_state=rs)
    except Exception as e:
        ctx.violation('pam_random:raises:%s' % type(e).__name__, case, 'random sweep raised %r (%r)' % (e, case))
        return
    k = len(st[0])
    if len(rs.log) != k:
        ctx.violation('pam_random:draws', case, '%d draws for %d clusters' % (len(rs.log), k))
        return
    drawn = [r for _, r in rs.log]
    cur = st
    for cid, (pool, r) in enumerate(rs.log):
        members = [f for f in range(len(X)) if cur[1][f] == cid]
        if sorted(pool) != members or r not in members:
            ctx.violation('pam_random:proposal_not_in_cluster', case,
                          'cluster %d has members %r but the proposal %d was drawn from %r (%r)' % (
                              cid, members, r, pool, case))
            return
        # advance the explicit model by one cluster: propose r for cid, current medoid elsewhere
        prop = [cur[0][j] for j in range(k)]
        prop[cid] = r
        i2, dd, aa, cc, _ = sweep(X, _metric_obj(metric), cur, prop)
        cur = ([int(i) for i in i2], [int(a) for a in aa], [float(x) for x in dd])
    got = ([int(i) for i in inds], [int(a) for a in a2], [float(x) for x in d2])
    if skey(got) != skey(cur):
        ctx.violation('pam_random:differs_from_explicit', case,
                      'random sweep %r != explicit replay of its own draws %r' % (got, cur))
    bad = cr.check_result(X, D, Res(inds, d2, a2, centers), want_k=k)
    for clause, msg in bad:
        ctx.violation('pam_random:consistency:%s' % clause, case, msg)
    if cr.cost(d2) > cr.cost(st[2]) * (1 + 1e-12) + 1e-15:
        ctx.violation('pam_random:cost_increased', case, 'cost went up (%r)' % (case,))
    ctx.guard('random_path_checked')


def check_e2e(pts, metric, k, seed, ctx):
    from enspara.cluster import kcenters as kc, kmedoids as km, hybrid as hy
    X = cr.as_array(pts, 'float64')
    D = cr.dist_matrix(X, metric)
    m = cr.impl_metric(metric)
    case = {'kind': 'e2e', 'pts': pts, 'metric': metric, 'k': k, 'seed': seed}
    try:
        base = kc.kcenters(X, m, n_clusters=k)
        c_base = cr.cost(base.distances)
        prev = c_base
        for it in (0, 1, 2, 3):
            ctx.ev()
            r = hy.hybrid(X, m, n_iters=it, n_clusters=k, random_state=seed)
            r2 = hy.hybrid(X, m, n_iters=it, n_clusters=k, random_state=seed)
            c = cr.cost(r.distances)
            if skey(([int(i) for i in r.center_indices], r.assignments.tolist(), r.distances.tolist())) != \
                    skey(([int(i) for i in r2.center_indices], r2.assignments.tolist(), r2.distances.tolist())):
                ctx.violation('e2e:not_reproducible:hybrid', case, 'same seed, different result (iters=%d)' % it)
            if it == 0 and ([int(i) for i in r.center_indices] != [int(i) for i in base.center_indices]
                            or not np.array_equal(r.distances, base.distances) or not np.array_equal(r.assignments, base.assignments)):
                ctx.violation('e2e:hybrid0_is_not_the_kcenters_solution', case,
                              'hybrid with 0 sweeps: centers %r dist %r; kcenters: centers %r dist %r' % (
                                  [int(i) for i in r.center_indices], r.distances.tolist(), [int(i) for i in base.center_indices], base.distances.tolist()))
            if c > prev * (1 + 1e-12) + 1e-15:
                ctx.violation('e2e:hybrid_cost_not_monotone', case,
                              'hybrid cost with %d sweeps %.12g > with %d sweeps %.12g (k-centers %.12g)' % (
                                  it, c, it - 1, prev, c_base))
            if len(r.center_indices) != k:
                ctx.violation('e2e:hybrid_k_changed', case, 'k=%d -> %d' % (k, len(r.center_indices)))
            for clause, msg in cr.check_result(X, D, r, want_k=k):
                ctx.violation('e2e:hybrid:%s' % clause, case, msg)
            if c < c_base:
                ctx.guard('e2e_improved')
            prev = c
        prev = None
        for it in (1, 2, 3):
            ctx.ev()
            r = km.kmedoids(X, m, n_clusters=k, n_iters=it, random_state=seed)
            r2 = km.kmedoids(X, m, n_clusters=k, n_iters=it, random_state=seed)
            c = cr.cost(r.distances)
            if [int(i) for i in r.center_indices] != [int(i) for i in r2.center_indices] or \
                    not np.array_equal(r.distances, r2.distances):
                ctx.violation('e2e:not_reproducible:kmedoids', case, 'same seed, different result (iters=%d)' % it)
            if prev is not None and c > prev * (1 + 1e-12) + 1e-15:
                ctx.violation('e2e:kmedoids_cost_not_monotone', case, 'cost %.12g after %d sweeps > %.12g' % (c, it, prev))
            for clause, msg in cr.check_result(X, D, r, want_k=k):
                ctx.violation('e2e:kmedoids:%s' % clause, case, msg)
            prev = c
    except Exception as e:
        ctx.violation('e2e:raises:%s' % type(e).__name__, case, 'raised %r on %r' % (e, case))


def compositions(n):
    for bits in itertools.product((0, 1), repeat=n - 1):
        out, cur = [], 1
        for b in bits:
            if b:
                out.append(cur)
                cur = 1
            else:
                cur += 1
        out.append(cur)
        yield out


def flat_to_pair(idx, lengths):
    t = 0
    for L in lengths:
        if idx < L:
            return (t, idx)
        idx -= L
        t += 1
    raise IndexError


def check_warm(case, ctx):
    """starting from a supplied consistent state: every way of supplying it (flat indices, (traj, frame) pairs +
    lengths, labels+distances, all three) must start the sweeps from THAT state: same outcome for the same seed,
    cost never above the cost of the supplied centers."""
    from enspara.cluster import kmedoids as km
    pts = tuple(tuple(p) if isinstance(p, list) else p for p in case['pts'])
    metric, sub, lengths, seed, iters = case['metric'], case['centers'], case['lengths'], case['seed'], case['iters']
    X = cr.as_array(pts, 'float64')
    D = cr.dist_matrix(X, metric)
    m = cr.impl_metric(metric)
    lab, dist = cr.nearest_state(D, sub)
    c0 = cr.cost(dist)
    forms = {
        'flat': dict(cluster_center_inds=list(sub)),
        'pairs': dict(cluster_center_inds=[flat_to_pair(i, lengths) for i in sub], X_lengths=list(lengths)),
        'state': dict(assignments=lab.copy(), distances=dist.copy()),
        'all': dict(assignments=lab.copy(), distances=dist.copy(), cluster_center_inds=list(sub)),
    }
    outs = {}
    for name, kw in forms.items():
        ctx.ev()
        try:
            r = km.kmedoids(X, m, n_iters=iters, random_state=seed, **kw)
        except Exception as e:
            ctx.violation('warm:%s:raises:%s' % (name, type(e).__name__), case, 'kmedoids warm start (%s) raised %r on %r' % (name, e, case))
            continue
        ctx.guard('warm_forms')
        for clause, msg in cr.check_result(X, D, r, want_k=len(sub)):
            ctx.violation('warm:%s:%s' % (name, clause), case, msg)
        c = cr.cost(r.distances)
        if c > c0 * (1 + 1e-12) + 1e-15:
            ctx.violation('warm:%s:cost_above_supplied_state' % name, case,
                          'supplied centers %r have cost %.12g, after %d sweep(s) the cost is %.12g (%r)' % (sub, c0, iters, c, case))
        outs[name] = skey(([int(i) for i in r.center_indices], r.assignments.tolist(), r.distances.tolist()))
    if len(set(outs.values())) > 1:
        ctx.violation('warm:forms_disagree', case, 'same centers, same seed, different outcome depending on how the state was supplied: %r' % (
            {k: v[0] for k, v in outs.items()},))


def e2e_sets(tier):
    out = [t for t in cr.lattice_sets([0, 1, 2, 4, 7, 11], 5, 5)]
    out += [t for t in cr.lattice_sets([0, 1, 3, 6, 10, 15, 21], 6, 6)][::(40 if tier == 'quick' else 4)]
    return out[::(3 if tier == 'quick' else 1)]


def run_shard(sh, ctx):
    tier, i = sh
    ds = datasets(tier)
    depth = 2 if tier == 'quick' else 3
    es = e2e_sets(tier)
    for j in range(i, len(es), NSH[tier]):
        for metric in ('euclidean', 'sqeuclid'):
            for k in (2, 3, 4):
                check_e2e(es[j], metric, k, ctx.seed, ctx)
                ctx.guard('e2e_larger_sets')
    for j in range(i, len(ds), NSH[tier]):
        pts = ds[j]
        n = len(pts)
        for metric in METRICS:
            if metric == 'chebyshev' and not isinstance(pts[0], tuple):
                continue
            for k in (2, 3):
                if k >= n:
                    continue
                st = explore_dataset(pts, metric, k, depth, ctx)
                for s in (ctx.seed, ctx.seed + 1, ctx.seed + 2):
                    check_e2e(pts, metric, k, s, ctx)
                # a dissimilarity that is NOT a metric (squared euclidean) is a legal callable too
                check_e2e(pts, 'sqeuclid', k, ctx.seed, ctx)
                ctx.guard('nonmetric_dissimilarity')
                X = cr.as_array(pts, 'float64')
                D = cr.dist_matrix(X, metric)
                for sub in itertools.combinations(range(n), k):
                    lab, dist = cr.nearest_state(D, sub)
                    for s in (ctx.seed, ctx.seed + 1, ctx.seed + 2):
                        check_random_path(pts, metric, (list(sub), lab.tolist(), dist.tolist()), s, ctx)
        # warm starts in every supplied form, every split into trajectories
        for metric in ('euclidean',):
            for k in (2, 3):
                if k >= n:
                    continue
                for sub in itertools.combinations(range(n), k):
                    for lengths in compositions(n):
                        ctx.state(('warm', pts, metric, sub, tuple(lengths)), nontrivial=len(set(lengths)) > 1)
                        check_warm({'kind': 'warm', 'pts': pts, 'metric': metric, 'centers': list(sub), 'lengths': lengths,
                                    'seed': ctx.seed + len(lengths), 'iters': 1 + (sum(sub) % 2)}, ctx)
        if j % 29 == 0:
            ctx.sample({'pts': pts, 'metrics': METRICS, 'k': [2, 3], 'bfs_depth': depth,
                        'proposal_lists_per_state': 'all of {0..n-1}^k'})


def replay(case, ctx):
    pts = tuple(tuple(p) if isinstance(p, list) else p for p in case['pts'])
    metric = case['metric']
    X = cr.as_array(pts, 'float64')
    D = cr.dist_matrix(X, metric)
    if case['kind'] == 'warm':
        check_warm(case, ctx)
        return
    if case['kind'] == 'sweep':
        check_transition(X, D, metric, tuple(case['state']), case['proposals'], ctx, case)
    elif case['kind'] == 'random':
        check_random_path(pts, metric, tuple(case['state']), case['seed'], ctx)
    else:
        check_e2e(pts, metric, case['k'], case['seed'], ctx)
