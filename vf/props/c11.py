"""C11 - ergodic trimming keeps exactly the heaviest strongly connected component.

E1: all n=3 count matrices over {0,1,3}, n=4 binary off-diagonal x diagonal weights, x thresholds x
renumber x containers; oracle = SCCs by boolean transitive closure (no csgraph).
"""
import itertools

import numpy as np
import scipy.sparse as sp

from ..models import msmref as mr

ID = 'C11'
RULE = ('count matrices: all n=3 over {0,1,3} (19683), n=4 with every binary off-diagonal pattern x diagonal in {0,5}^4 '
        '(Q: every 4th pattern; T: all, diagonal {0,1,5}^4 on every 8th) x threshold {1,2,4} x renumber {T,F} x containers '
        '{ndarray,csr,csc,coo,lil, non-canonical coo with one unit entry per transition}; plus MSM(trim=True).fit on every assignment set of <=2 trajectories (len<=4, 3 states) and on 4-state two-island sets where every state has in- and out-transitions; '
        'state=(matrix,threshold,renumber,container); non-trivial = >=2 components where the heaviest is not the one '
        'containing state 0 or not the largest')
ASSUMPTIONS = ['ties between equally heavy components: any maximiser accepted',
               'component weight = total outgoing count of its states in the ORIGINAL matrix (as the statement says)']
GUARDS = {'islands': 200, 'heaviest_not_largest': 200, 'heaviest_not_first': 200, 'one_way_link': 1000, 'isolated_state': 1000,
          'ties': 100, 'msm_fit': 500, 'sparse': 1000}
NSH = {'quick': 64, 'thorough': 256}
CONTAINERS = ('ndarray', 'csr', 'csc', 'coo', 'lil', 'coo_dup')


def matrices(tier):
    out = [C for C in mr.all_matrices(3, (0, 1, 3))]
    pats = list(itertools.product((0, 1), repeat=12))
    if tier == 'quick':
        pats = pats[::4]
    for k, off in enumerate(pats):
        diags = itertools.product((0, 5), repeat=4)
        if tier == 'thorough' and k % 8 == 0:
            diags = itertools.product((0, 1, 5), repeat=4)
        for diag in diags:
            C = np.zeros((4, 4), dtype=int)
            C[~np.eye(4, dtype=bool)] = off
            C[np.diag_indices(4)] = diag
            out.append(C)
    return out


def shards(tier, seed):
    return [('mat', tier, i) for i in range(NSH[tier])] + [('msm', tier, i) for i in range(8)]


def wrap(C, cont):
    if cont == 'coo_dup':
        # non-canonical COO: one stored unit entry per observed transition (what assigns_to_counts returns)
        C = np.array(C)
        rows, cols = [], []
        for i in range(len(C)):
            for j in range(len(C)):
                rows += [i] * int(C[i, j])
                cols += [j] * int(C[i, j])
        return sp.coo_matrix((np.ones(len(rows), dtype=int), (rows, cols)), shape=C.shape)
    return np.array(C) if cont == 'ndarray' else getattr(sp, cont + '_matrix')(np.array(C))


def oracle(C, thr):
    A = np.where(C >= thr, C, 0)
    comps = mr.sccs(A)
    pops = C.sum(axis=1)
    w = [int(sum(pops[list(c)])) for c in comps]
    best = max(w)
    return comps, w, [c for c, x in zip(comps, w) if x == best]


def check_trim(C, thr, renum, cont, ctx, case, via_msm=None):
    from enspara.msm.transition_matrices import trim_disconnected
    n = len(C)
    comps, w, best = oracle(C, thr)
    M = wrap(C, cont)
    before = M.toarray().copy() if sp.issparse(M) else M.copy()
    try:
        if via_msm is None:
            mapping, tc = trim_disconnected(M, threshold=thr, renumber_states=renum)
        else:
            mapping, tc = via_msm
    except Exception as e:
        ctx.violation('trim:raises:%s' % type(e).__name__, case, 'raised %r on %r' % (e, case))
        return
    tag = 'trim' if via_msm is None else 'msm_trim'
    if via_msm is None:
        after = M.toarray() if sp.issparse(M) else M
        if not np.array_equal(before, after):
            ctx.violation('trim:mutates_input', case, 'input modified')
        if type(tc) is not type(M):
            ctx.violation('trim:container:%s' % cont, case, 'output type %s for input %s' % (type(tc).__name__, type(M).__name__))
    to_orig = dict(mapping.to_original)
    to_map = dict(mapping.to_mapped)
    kept = tuple(sorted(int(v) for v in to_orig.values()))
    if kept not in best:
        which = 'not_a_component' if kept not in comps else 'not_heaviest'
        ctx.violation('%s:kept_set:%s' % (tag, which), case,
                      'kept %r; components %r weights %r (threshold %d) for C=%r' % (kept, comps, w, thr, C.tolist()))
        return
    # mapping laws
    keys = sorted(int(k) for k in to_orig)
    vals = [int(to_orig[k]) for k in keys]
    if renum:
        ok = keys == list(range(len(kept))) and vals == list(kept)
    else:
        ok = keys == list(kept) and vals == list(kept)
    inv_ok = {int(k): int(v) for k, v in to_map.items()} == {v: k for k, v in zip(keys, vals)}
    if not ok or not inv_ok or any(vals[i] >= vals[i + 1] for i in range(len(vals) - 1)):
        ctx.violation('%s:mapping' % tag, case, 'to_original=%r to_mapped=%r kept=%r renumber=%r' % (to_orig, to_map, kept, renum))
    T = mr.to_dense(tc)
    idx = np.array(kept)
    if renum:
        want = C[np.ix_(idx, idx)]
    else:
        want = np.zeros_like(C)
        want[np.ix_(idx, idx)] = C[np.ix_(idx, idx)]
    if T.shape != want.shape or not np.array_equal(T, want):
        ctx.violation('%s:counts:%s' % (tag, 'renumbered' if renum else 'inplace'), case,
                      'trimmed=%r want %r (C=%r kept=%r)' % (T.tolist(), want.tolist(), C.tolist(), kept))
        return
    sub = np.where(C[np.ix_(idx, idx)] >= thr, 1, 0)
    if not mr.strongly_connected(sub):
        ctx.violation('%s:not_strongly_connected' % tag, case, 'kept set %r is not strongly connected' % (kept,))


def check_case(case, ctx):
    C = np.array(case['C'])
    thr, renum, cont = case['thr'], case['renum'], case['container']
    ctx.ev()
    comps, w, best = oracle(C, thr)
    nontriv = len(comps) >= 2 and (0 not in best[0] or len(best[0]) < max(map(len, comps)))
    ctx.state((C.tobytes(), len(C), thr, renum, cont), nontrivial=nontriv)
    if len(comps) >= 2:
        if len(best[0]) < max(map(len, comps)):
            ctx.guard('heaviest_not_largest')
        if 0 not in best[0]:
            ctx.guard('heaviest_not_first')
        A = (C >= thr)
        if (A & ~A.T).any():
            ctx.guard('one_way_link')
        if any(len(c) == 1 and not A[c[0]].any() and not A[:, c[0]].any() for c in comps):
            ctx.guard('isolated_state')
    if len(best) > 1:
        ctx.guard('ties')
    if cont != 'ndarray':
        ctx.guard('sparse')
    check_trim(C, thr, renum, cont, ctx, case)


def check_msm(case, ctx):
    from enspara.msm import MSM, builders
    from enspara.msm.transition_matrices import assigns_to_counts
    from enspara import ra
    trajs, lag = case['trajs'], case['lag']
    ctx.ev()
    ctx.state(('msm', tuple(map(tuple, trajs)), lag))
    a = ra.RaggedArray([list(t) for t in trajs])
    C = np.asarray(assigns_to_counts(a, lag_time=lag).toarray())
    if C.sum() == 0:
        return
    try:
        m = MSM(lag_time=lag, method=builders.normalize, trim=True)
        m.fit(a)
    except Exception as e:
        ctx.violation('msm_trim:raises:%s' % type(e).__name__, case, 'MSM.fit raised %r on %r' % (e, case))
        return
    ctx.guard('msm_fit')
    check_trim(C, 1, True, 'coo', ctx, case, via_msm=(m.mapping_, m.tcounts_))


def island_sets():
    """assignment sets whose count graph has >= 2 strongly connected components although EVERY state has an incoming and
    an outgoing transition (two islands {0,1} / {2,3}, optionally joined by a one-way crossing)"""
    import itertools
    def both(seq, a, b):
        return a in seq and b in seq
    A = [s for L in (3, 4) for s in itertools.product((0, 1), repeat=L) if both(s, 0, 1)]
    B = [s for L in (3, 4) for s in itertools.product((2, 3), repeat=L) if both(s, 2, 3)]
    out = []
    for a in A:
        for b in B:
            out.append([a, b])
            out.append([a + b])                 # one trajectory crossing once, one way
            out.append([a, b, (1, 2)])
    return out


def run_shard(sh, ctx):
    kind, tier, i = sh
    if kind == 'mat':
        ms = matrices(tier)
        for j in range(i, len(ms), NSH[tier]):
            C = ms[j]
            for thr in (1, 2, 4):
                for renum in (True, False):
                    for cont in CONTAINERS:
                        if tier == 'quick' and cont in ('csc', 'lil', 'coo_dup') and (j // NSH[tier]) % 3:
                            continue
                        case = {'kind': 'mat', 'C': C.tolist(), 'thr': thr, 'renum': renum, 'container': cont}
                        check_case(case, ctx)
            if j % 499 == 0:
                ctx.sample(case)
    else:
        from .c03 import seqs
        S = seqs(4)
        k = 0
        for a in S:
            for b in [None] + S:
                k += 1
                if k % 8 != i:
                    continue
                trajs = [a] if b is None else [a, b]
                for lag in (1, 2):
                    check_msm({'kind': 'msm', 'trajs': trajs, 'lag': lag}, ctx)
        isl = island_sets()
        for j in range(i, len(isl), 8):
            for lag in (1, 2):
                ctx.guard('islands')
                check_msm({'kind': 'msm', 'trajs': isl[j], 'lag': lag}, ctx)
        ctx.sample({'kind': 'msm', 'trajs': trajs, 'lag': lag})


def replay(case, ctx):
    if case['kind'] == 'mat':
        check_case(case, ctx)
    else:
        check_msm(case, ctx)
