"""C20 - rotamer assignment is a correct hysteresis state machine; transition bookkeeping.

Histories: every angle sequence of length <=3 (T: <=4) over the exact region alphabet of each
(boundary set, buffer) through the real _rotamers; oracle = 10-line reference automaton.
disorder.transitions: all small integer state matrices / sequences; oracle = first differences per row.
"""
import itertools

import numpy as np

ID = 'C20'
ENGINE = 'E3-explicit-state-bfs'
TECHNIQUE = ('exhaustive enumeration of all angle histories up to depth 3/4 over an exact region abstraction of [0,360) '
             '(two representatives per open interval between the finitely many gate values) against a reference automaton')
RULE = ('boundary sets {[0,180,360],[0,160,360],[0,120,240,360]} x buffers {0,1,15,45,59.5,60,75,85,89,90,95,100,110,119,120,150,179} '
        'within range x all angle sequences of length 1..3 (T: ..4) over the region alphabet (2 representatives of every open '
        'interval between consecutive critical values 0,B_i,B_i+-b,b,360-b,360, plus the hard boundaries themselves when they are not gates); the public wrappers phi/psi/chi/all_rotamers for every buffer width on (up to 1500) angle histories of length 1..3 per dihedral type, fed (as float32, as mdtraj returns them) through a stub of the dihedral computation, including the float32 neighbours of the psi shift point; transitions(): all 1-D sequences len<=5 over 3 '
        'states, all matrices up to 3x3 and 2x4 (T: 3x4) over {0,1,2}, long sequences in int8/uint8/int16 with transitions beyond the range of the dtype; state=(boundaries,buffer,angle sequence); non-trivial = '
        'sequence on which the hysteresis answer differs from plain binning')
ASSUMPTIONS = ['angles equal to a gate value (B_i +- buffer mod 360) are excluded, as the property allows; hard boundaries are included when buffer > 0',
               'the region alphabet is exact: all comparisons in the code are against the listed critical values, so two angles '
               'in the same open interval are indistinguishable to the implementation']
GUARDS = {'public_wrappers': 20, 'long_narrow': 5, 'hysteresis_differs_from_binning': 1000, 'wide_buffer_wraps': 1000, 'wraparound_stay': 1000,
          'quiet_trailing_row': 100, 'all_quiet': 10}
BSETS = ([0, 180, 360], [0, 160, 360], [0, 120, 240, 360])
BUFFERS = (0, 1, 15, 45, 59.5, 60, 75, 85, 89, 90, 95, 100, 110, 119, 120, 150, 179)


def configs():
    out = []
    for B in BSETS:
        for b in BUFFERS:
            if b < 360.0 / (len(B) - 1):
                out.append((B, b))
    return out


def shards(tier, seed):
    return [('rot', tier, i) for i in range(len(configs()))] + [('trans', tier, i) for i in range(8)] + [('wrap', tier, i) for i in range(4)]


def alphabet(B, b):
    crit = {0.0, 360.0, float(b) % 360, (360.0 - b) % 360}
    for x in B:
        crit.update({float(x), (x - b) % 360.0, (x + b) % 360.0})
    crit = sorted(c for c in crit if 0 <= c <= 360)
    reps = []
    for c1, c2 in zip(crit[:-1], crit[1:]):
        w = c2 - c1
        if w > 1e-9:
            reps += [c1 + w / 4, c2 - w / 4]
    # only the GATE values (B_i +- b, b, 360-b) are excluded by the statement; with a non-zero buffer the hard
    # boundaries themselves (0, B_i) are ordinary angles - they belong to the basin above them ([lo, hi) convention)
    gates = {float(b) % 360, (360.0 - b) % 360}
    for x in B:
        gates.update({(x - b) % 360.0, (x + b) % 360.0})
    if b > 0:
        for x in B[:-1]:
            if float(x) not in gates:
                reps.append(float(x))
    return sorted(reps)


def basin_of(a, B):
    for i in range(len(B) - 1):
        if B[i] <= a < B[i + 1]:
            return i
    raise ValueError(a)


def reference(angles, B, b):
    s = basin_of(angles[0], B)
    out = [s]
    for a in angles[1:]:
        L, U = B[s], B[s + 1]
        width = (U - L) + 2 * b
        stay = width >= 360 or ((a - (L - b)) % 360.0) <= width
        if not stay:
            s = basin_of(a, B)
        out.append(s)
    return out


def check_seq(case, ctx):
    from enspara.geometry import rotamer
    B, b, seq = case['B'], case['b'], case['angles']
    ctx.ev()
    want = reference(seq, B, b)
    plain = [basin_of(a, B) for a in seq]
    ctx.state((tuple(B), b, tuple(seq)), nontrivial=want != plain)
    if want != plain:
        ctx.guard('hysteresis_differs_from_binning')
    wide = any((B[i + 1] - B[i]) + 2 * b >= 360 for i in range(len(B) - 1))
    if wide:
        ctx.guard('wide_buffer_wraps')
    arr = np.array(seq, dtype=float)
    keep = arr.copy()
    try:
        got = rotamer._rotamers(arr, list(B), buffer_width=b)
    except Exception as e:
        ctx.violation('rotamers:raises:%s' % type(e).__name__, case, '_rotamers raised %r on %r' % (e, case))
        return
    got = [int(x) for x in got]
    if not np.array_equal(arr, keep):
        ctx.violation('rotamers:mutates_input', case, 'angles modified')
    if len(got) != len(seq) or any(g < 0 or g >= len(B) - 1 for g in got):
        ctx.violation('rotamers:invalid_state', case, 'states %r for %r' % (got, case))
        return
    if got != want:
        kind = 'wide_buffer' if wide else ('zero_buffer' if b == 0 else 'normal')
        first = [i for i in range(len(seq)) if got[i] != want[i]][0]
        sub = 'first_frame' if first == 0 else ('left_while_inside_widened_basin' if got[first] != got[first - 1] else 'stayed_outside_widened_basin')
        ctx.violation('rotamers:%s:%s' % (kind, sub), case,
                      'boundaries %r buffer %r angles %r: got %r, reference automaton %r' % (B, b, seq, got, want))
    elif any(want[i] == want[i - 1] and plain[i] != want[i] and (seq[i] < b or seq[i] > 360 - b) for i in range(1, len(seq))):
        ctx.guard('wraparound_stay')


WRAPPERS = {'phi': ([0, 180, 360], 0.0), 'psi': ([0, 160, 360], 100.0), 'chi': ([0, 120, 240, 360], 0.0)}


def check_wrappers(case, ctx):
    """the public per-dihedral wrappers (phi/psi/chi/all_rotamers) with the requested buffer width; the dihedral
    computation is replaced by a stub that returns the angle histories the explorer chose (harness seam, no source hook)"""
    from enspara.geometry import rotamer
    b, L = case['b'], case['len']
    ctx.ev()
    cols, wants = {}, {}
    for name, (B, shift) in WRAPPERS.items():
        if not b < 360.0 / (len(B) - 1):
            return
        alpha = alphabet(B, b)
        seqs_ = list(itertools.product(alpha, repeat=L))
        if len(seqs_) > 1500:
            seqs_ = seqs_[::len(seqs_) // 1500 + 1]
        raw = ((np.array(seqs_, dtype=float).T + shift) % 360.0).astype(np.float32)   # (frames, dihedrals); mdtraj angles are float32
        if shift:
            # float32 neighbours of the wrapper's internal shift point (raw angles a hair below / at / above it)
            s32 = np.float32(shift)
            edge = [np.nextafter(s32, np.float32(0)), s32, np.nextafter(s32, np.float32(360)), np.float32(shift - 1e-4)]
            extra = np.array(list(itertools.product(edge, repeat=L)), dtype=np.float32).T
            raw = np.concatenate([raw, extra], axis=1)
        cols[name] = raw
        true = (raw.astype(float) - shift) % 360.0                     # the angle sequence in the shifted frame, exactly
        gates = {float(b) % 360, (360.0 - b) % 360}
        for x in B:
            gates.update({(x - b) % 360.0, (x + b) % 360.0})
        keepc = [j for j in range(true.shape[1]) if not any(abs(v - g) < 1e-9 for v in true[:, j] for g in gates)]
        cols[name] = raw[:, keepc]
        wants[name] = np.array([reference(true[:, j].tolist(), B, b) for j in keepc]).T.reshape(L, len(keepc))
    ctx.state(('wrappers', b, L), nontrivial=True)
    ctx.guard('public_wrappers')

    def stub(traj, kind):
        key = {'phi': 'phi', 'psi': 'psi', 'chi1': 'chi'}.get(kind)
        if key is None:
            return np.zeros((L, 0)), np.zeros((0, 4), dtype=int)
        a = cols[key].copy()
        return a, np.arange(a.shape[1] * 4).reshape(-1, 4)
    orig = rotamer.dihedral_angles
    rotamer.dihedral_angles = stub
    try:
        outs = {'phi': rotamer.phi_rotamers(None, buffer_width=b)[0], 'psi': rotamer.psi_rotamers(None, buffer_width=b)[0],
                'chi': rotamer.chi_rotamers(None, buffer_width=b)[0]}
        allr, inds, nst = rotamer.all_rotamers(None, buffer_width=b)
    except Exception as e:
        ctx.violation('wrappers:raises:%s' % type(e).__name__, case, 'raised %r on %r' % (e, case))
        return
    finally:
        rotamer.dihedral_angles = orig
    for name in ('phi', 'psi', 'chi'):
        got = np.asarray(outs[name])
        if got.shape != wants[name].shape or not np.array_equal(got, wants[name]):
            bad = np.argwhere(got != wants[name])[0] if got.shape == wants[name].shape else None
            ctx.violation('wrappers:%s_rotamers:%s' % (name, 'default_buffer' if b == 15 else 'other_buffer'), case,
                          '%s_rotamers(buffer_width=%r): column %r angles %r -> %r, reference automaton %r' % (
                              name, b, None if bad is None else int(bad[1]),
                              None if bad is None else cols[name][:, bad[1]].tolist(), None if bad is None else got[:, bad[1]].tolist(),
                              None if bad is None else wants[name][:, bad[1]].tolist()))
            return
    want_all = np.concatenate([wants['phi'], wants['psi'], wants['chi']], axis=1)
    if np.asarray(allr).shape != want_all.shape or not np.array_equal(allr, want_all):
        ctx.violation('wrappers:all_rotamers', case, 'all_rotamers(buffer_width=%r) differs from [phi|psi|chi] of the reference automaton' % b)
    elif len(nst) != want_all.shape[1] or len(inds) != want_all.shape[1]:
        ctx.violation('wrappers:all_rotamers:bookkeeping', case, 'n_states / atom index rows do not match the number of dihedrals')


def trans_oracle(a):
    a = np.asarray(a)
    if a.ndim == 1:
        return [n for n in range(len(a) - 1) if a[n] != a[n + 1]]
    return [[n for n in range(a.shape[1] - 1) if row[n] != row[n + 1]] for row in a]


def check_trans(case, ctx):
    from enspara.cards import disorder
    a = np.array(case['a'], dtype=case.get('dtype', 'int64'))
    ctx.ev()
    want = trans_oracle(a)
    ctx.state(('trans', a.shape, a.tobytes(), a.dtype.str), nontrivial=(a.ndim == 2 and any(want) and not all(want)))
    if a.ndim == 2 and want and not want[-1] and any(want):
        ctx.guard('quiet_trailing_row')
    if a.ndim == 2 and not any(want):
        ctx.guard('all_quiet')
    keep = a.copy()
    try:
        tt = disorder.transitions(a)
    except Exception as e:
        kind = '1d' if a.ndim == 1 else ('all_quiet' if not any(want) else 'mixed')
        ctx.violation('transitions:raises:%s:%s' % (kind, type(e).__name__), case, 'transitions raised %r on %r' % (e, a.tolist()))
        return
    if not np.array_equal(a, keep):
        ctx.violation('transitions:mutates_input', case, 'input modified')
    if a.ndim == 1:
        got = [int(x) for x in np.asarray(tt).ravel()]
        if got != want:
            ctx.violation('transitions:1d:value', case, 'got %r want %r for %r' % (got, want, a.tolist()))
        return
    try:
        got = [[int(x) for x in row] for row in tt]
    except Exception as e:
        ctx.violation('transitions:unreadable', case, 'result %r not iterable by rows (%r)' % (tt, e))
        return
    if len(got) != len(want):
        where = 'trailing' if want[:len(got)] == got else 'other'
        ctx.violation('transitions:rows_dropped:%s' % where, case, 'input has %d rows, result %d rows: %r (want %r) for %r' % (
            len(want), len(got), got, want, a.tolist()))
    elif got != want:
        ctx.violation('transitions:2d:value', case, 'got %r want %r for %r' % (got, want, a.tolist()))


def run_shard(sh, ctx):
    kind, tier, i = sh
    if kind == 'wrap':
        for k, b in enumerate(BUFFERS):
            if k % 4 == i:
                for L in (1, 2, 3):
                    c = {'kind': 'wrap', 'b': b, 'len': L}
                    check_wrappers(c, ctx)
        ctx.sample(c)
        return
    if kind == 'rot':
        B, b = configs()[i]
        alpha = alphabet(B, b)
        maxlen = 3 if tier == 'quick' else 4
        for L in range(1, maxlen + 1):
            for seq in itertools.product(alpha, repeat=L):
                check_seq({'kind': 'rot', 'B': B, 'b': b, 'angles': list(seq)}, ctx)
        ctx.sample({'kind': 'rot', 'B': B, 'b': b, 'angles': list(seq), 'alphabet': alpha})
    else:
        shapes = [(1, 2), (1, 3), (2, 2), (2, 3), (3, 2), (3, 3), (2, 4), (1, 4)]
        if tier == 'thorough':
            shapes += [(3, 4), (4, 2)]
        k = 0
        for L in range(1, 6):
            for seq in itertools.product(range(3), repeat=L):
                k += 1
                if k % 8 == i:
                    check_trans({'kind': 'trans', 'a': list(seq)}, ctx)
        for shp in shapes:
            for vals in itertools.product(range(3), repeat=shp[0] * shp[1]):
                k += 1
                if k % 8 == i:
                    case = {'kind': 'trans', 'a': np.array(vals).reshape(shp).tolist()}
                    check_trans(case, ctx)
                    if k % 64 == i:
                        check_trans(dict(case, dtype='int16'), ctx)
        # narrow state dtypes with transitions at frame numbers beyond the dtype's range
        if i == 0:
            for dt, L in (('int8', 130), ('int8', 300), ('uint8', 260), ('int16', 40000), ('int64', 300)):
                for shape2d in (False, True):
                    a = np.zeros(L, dtype=dt)
                    a[L - 3:] = 1
                    a[L // 2] = 2
                    arr = np.stack([a, a[::-1].copy()]) if shape2d else a
                    ctx.guard('long_narrow')
                    check_trans({'kind': 'trans', 'a': arr.tolist(), 'dtype': dt}, ctx)
        ctx.sample(case)


def replay(case, ctx):
    if case['kind'] == 'wrap':
        check_wrappers(case, ctx)
    elif case['kind'] == 'rot':
        check_seq(case, ctx)
    else:
        check_trans(case, ctx)
