"""C05 - reading a ragged array equals reading the list of its rows.

E1: every length vector (<=3 rows of length 1..3; T: <=4 rows of 1..4) x element rank x 4 constructors x the full
index grammar; oracle = list-of-rows model (vf.models.raref).
"""
import itertools

import numpy as np

from ..models import raref as rr

ID = 'C05'
RULE = ('ragged arrays: all length vectors with <=3 rows of length 1..3 (T: <=4 rows, 1..4) x element rank {1,2} x constructors '
        '{nested lists, list of arrays, flat+lengths(list), flat+lengths(ndarray)} x index grammar {int, slice(a,b,c) with '
        'a,b in None/-n-1..n+1 and c in None,1,2,-1,-2, row lists, (int,int) incl. out-of-row and negative, (slice,slice), '
        '(list,slice), (slice,int), (slice,list), (int,slice), paired (list,list), boolean ragged masks (all masks for <=6 '
        'elements), iteration, flatten, lengths/starts/shape/size/dtype/len}; lengths-dtype family: flat+lengths(ndarray of dtype '
        'int8,int16,int32,uint8,uint16,uint32,uint64) for every length vector (attrs + a reduced grammar) and for long rows whose '
        'total exceeds the range of the lengths dtype ((100,60,100) int8/uint8.., (200,100) uint8, (20000,20000,3) int16/uint16) '
        'with a boundary menu per row; state=(array, constructor, index expression); '
        'non-trivial = unequal row lengths and an index touching >=2 rows')
ASSUMPTIONS = ['observations are canonicalised to (row structure, values): a scalar is a 1-element result, a single selected row '
               'may come back as the bare row, a rectangular selection may come back as a 2-D array',
               'model raises (index out of range) => implementation must raise (any exception type)',
               'an empty selection may be reported as an empty ragged array or an empty array']
GUARDS = {'lengths_dtype': 50, 'total_beyond_lengths_dtype': 4, 'ragged_arrays': 100, 'negative_index': 1000, 'out_of_row_must_raise': 500, 'masks': 500, 'two_dim_slices': 1000,
          'rank2_elements': 50}
NSH = {'quick': 39, 'thorough': 340}


def length_vectors(tier):
    mr, ml = (3, 3) if tier == 'quick' else (4, 4)
    out = []
    for n in range(1, mr + 1):
        out += list(itertools.product(range(1, ml + 1), repeat=n))
    return out


def shards(tier, seed):
    lv = length_vectors(tier)
    return [(tier, i) for i in range(len(lv))]


CONSTRUCTORS = ('nested', 'arrays', 'flat_list', 'flat_nd')


def build(rows, how):
    from enspara import ra
    if how == 'nested':
        return ra.RaggedArray([r.tolist() for r in rows])
    if how == 'arrays':
        return ra.RaggedArray([r.copy() for r in rows])
    flat = np.concatenate(rows)
    L = [len(r) for r in rows]
    if how == 'flat_list':
        return ra.RaggedArray(flat, lengths=L)
    if how.startswith('flat_nd:'):
        return ra.RaggedArray(flat, lengths=np.array(L, dtype=how.split(':')[1]))
    return ra.RaggedArray(flat, lengths=np.array(L))


LEN_DTYPES = ('int8', 'int16', 'int32', 'uint8', 'uint16', 'uint32', 'uint64')
LONG = (((100, 60, 100), ('int8', 'uint8', 'int16', 'uint64')), ((200, 100), ('uint8', 'int16')), ((3, 120, 8), ('int8',)),
        ((20000, 20000, 3), ('int16', 'uint16', 'int32')))


def boundary_menu(lengths):
    """reduced grammar for long rows / lengths-dtype cases: every row, first/last/one-past-the-end element of every row,
    2-D slices and paired fancy indices touching every row"""
    n = len(lengths)
    for i in range(-n, n):
        yield ('int', i)
    yield ('slice', slice(None, None, -1))
    yield ('slice', slice(1, None))
    yield ('rowlist', [n - 1, 0])
    for i in range(n):
        for j in (0, 1, lengths[i] - 1, -1, -lengths[i], lengths[i], -lengths[i] - 1):
            yield ('int_int', (i, j))
            yield ('int_int', (i - n, j))
    for cs in (slice(None), slice(0, 2), slice(-2, None), slice(None, None, -1), slice(1, None, 2), slice(None, 1)):
        yield ('slice_slice', (slice(None), cs))
        yield ('slice_slice', (slice(None, None, -1), cs))
        yield ('list_slice', ([n - 1, 0], cs))
        for i in range(n):
            yield ('int_slice', (i, cs))
    for j in (0, -1, min(lengths) - 1):
        yield ('slice_int', (slice(None), j))
        yield ('list_int', (list(range(n)), j))
    yield ('slice_list', (slice(None), [0, min(lengths) - 1]))
    last = [(i, lengths[i] - 1) for i in range(n)]
    first = [(i, 0) for i in range(n)]
    for p in (last, first, last[::-1] + first):
        yield ('list_list', ([a for a, _ in p], [b for _, b in p]))
        yield ('array_array', (np.array([a - n for a, _ in p]), np.array([b - lengths[a] for a, b in p])))


def run_lendtype_case(lengths, how, ctx):
    rows = rr.mk_rows(lengths, 'int64', 1)
    case0 = {'lengths': list(lengths), 'rank': 1, 'constructor': how, 'menu': 'boundary'}
    ctx.guard('lengths_dtype')
    dt = np.dtype(how.split(':')[1])
    if sum(lengths) > np.iinfo(dt).max:
        ctx.guard('total_beyond_lengths_dtype')
    try:
        A = build(rows, how)
    except Exception as e:
        ctx.violation('construct:raises:%s:%s' % (how.split(':')[0], type(e).__name__), case0, 'constructor raised %r for lengths %r (%s)' % (e, lengths, how))
        return
    check_attrs(A, rows, ctx, dict(case0, index='attrs'), 1)
    ctx.state((tuple(lengths), 1, how, 'attrs'))
    for form, idx in boundary_menu(lengths):
        ctx.state((tuple(lengths), 1, how, form, repr(idx)), nontrivial=len(lengths) > 1)
        check_index(A, rows, form, idx, ctx, dict(case0, index=jidx(idx), form=form), lengths, 1)
    if sum(lengths) <= 6:
        check_masks(A, rows, ctx, case0)
    else:
        # one mask per row boundary: last element of every row
        from enspara import ra
        mk = np.zeros(sum(lengths), dtype=bool)
        mk[np.cumsum(lengths) - 1] = True
        ctx.ev()
        try:
            M = ra.RaggedArray(mk, lengths=np.array(lengths, dtype=how.split(':')[1]))
            got = A[M]
            flat_got = np.concatenate([np.asarray(r).ravel() for r in got]) if len(got) else np.array([])
            want = np.array([r[-1] for r in rows])
            if not np.array_equal(flat_got, want):
                ctx.violation('mask:value', dict(case0, index={'mask': 'last_of_each_row'}), 'mask of row ends gave %r want %r' % (flat_got.tolist()[:8], want.tolist()[:8]))
        except Exception as e:
            ctx.violation('mask:raises:%s' % type(e).__name__, dict(case0, index={'mask': 'last_of_each_row'}), 'row-end mask raised %r' % (e,))


def svals(lo, hi):
    return [None] + list(range(lo, hi + 1))


def slices(n, steps=(None, 1, 2, -1, -2)):
    for a in svals(-n - 1, n + 1):
        for b in svals(-n - 1, n + 1):
            for c in steps:
                yield slice(a, b, c)


ROW_SLICES_2D = (slice(None), slice(0, 1), slice(1, None), slice(None, -1), slice(None, None, 2), slice(None, None, -1),
                 slice(-2, None), slice(5, None), slice(None, 0), slice(-1, None, -1))


def index_menu(lengths, tier):
    n = len(lengths)
    m = max(lengths)
    for i in range(-n - 1, n + 1):
        yield ('int', i)
    for s in slices(n):
        yield ('slice', s)
    for k in (1, 2):
        for t in itertools.product(range(-n, n), repeat=k):
            yield ('rowlist', list(t))
    yield ('rowlist', [n])
    yield ('rowarray', np.arange(n)[::-1].copy())
    for i in range(-n, n):
        for j in range(-m - 1, m + 1):
            yield ('int_int', (i, j))
    for rs in ROW_SLICES_2D:
        for cs in slices(m):
            yield ('slice_slice', (rs, cs))
    for rl in ([0], list(range(n)), [n - 1, 0], [-1]):
        for cs in slices(m, steps=(None, 2, -1)):
            yield ('list_slice', (rl, cs))
    for rs in ROW_SLICES_2D[:6]:
        for j in range(-m - 1, m + 1):
            yield ('slice_int', (rs, j))
        for cl in ([0], [0, 0], [-1], [0, m - 1], [m]):
            yield ('slice_list', (rs, cl))
    for i in range(-n, n):
        for cs in slices(m):
            yield ('int_slice', (i, cs))
    cells = [(i, j) for i in range(n) for j in range(lengths[i])]
    for k in (1, 2, 3):
        pairs = list(itertools.product(cells, repeat=k))
        if len(pairs) > 400:
            pairs = pairs[::len(pairs) // 400]
        for p in pairs:
            yield ('list_list', ([a for a, _ in p], [b for _, b in p]))
    for p in pairs[:40] if 'pairs' in dir() else []:
        pass
    neg = [(i - n, j - lengths[i]) for i, j in cells]
    for k in (1, 2):
        for p in list(itertools.product(neg, repeat=k))[:60]:
            yield ('array_array', (np.array([a for a, _ in p]), np.array([b for _, b in p])))
    yield ('array_array', (np.array(-1), np.array(-1)))
    yield ('list_list', ([0], [m + 3]))
    yield ('list_list', ([-1, 0], [-1, -1]))
    for j in range(-m - 1, m + 1):
        yield ('list_int', (list(range(n)), j))
        yield ('list_int', ([n - 1, 0], j))


def flags_of(form, idx, lengths):
    n, m = len(lengths), max(lengths)
    fl = []

    def sl(s, size, tag):
        if s.step is not None and s.step < 0:
            fl.append(tag + 'negstep')
        elif s.step is not None and s.step > 1:
            fl.append(tag + 'step')
        if s.start is not None and s.start < 0:
            fl.append(tag + 'negstart')
        if s.stop is not None and s.stop < 0:
            fl.append(tag + 'negstop')
        if (s.start is not None and s.start >= size) or (s.stop is not None and s.stop > size):
            fl.append(tag + 'pastend')
    if form == 'slice':
        sl(idx, n, 'r')
    elif form in ('slice_slice',):
        sl(idx[0], n, 'r')
        sl(idx[1], min(lengths), 'c')
    elif form in ('list_slice', 'int_slice'):
        sl(idx[1], min(lengths), 'c')
    elif form == 'list_int':
        if idx[1] < 0:
            fl.append('cneg')
    elif form in ('slice_int', 'slice_list'):
        sl(idx[0], n, 'r')
        c = idx[1]
        if (isinstance(c, int) and c < 0) or (isinstance(c, list) and min(c) < 0):
            fl.append('cneg')
    return fl


def check_index(A, rows, form, idx, ctx, case, lengths, rank):
    ctx.ev()
    try:
        exp = rr.getitem(rows, idx)
        merr = None
    except rr.ModelError as e:
        exp, merr = None, e
    # index arrays are the caller's arguments: snapshot them (they must come back untouched)
    def _snap(x):
        if isinstance(x, tuple):
            return tuple(_snap(v) for v in x)
        return x.copy() if isinstance(x, np.ndarray) else x
    idx0 = _snap(idx)
    try:
        got = A[idx]
        ierr = None
    except Exception as e:
        got, ierr = None, e
    if isinstance(idx, tuple) and any(isinstance(v, np.ndarray) for v in idx):
        if not all(np.array_equal(a, b) for a, b in zip(idx, idx0) if isinstance(a, np.ndarray)):
            ctx.violation('getitem:%s:mutates_index_arrays' % form, case, 'index arrays %r were rewritten to %r' % (idx0, idx))
    fl = flags_of(form, idx, lengths)
    if merr is not None:
        ctx.guard('out_of_row_must_raise')
        if ierr is None:
            ctx.violation('getitem:%s:no_error:%s' % (form, '+'.join(fl)), case,
                          'index %r is out of range (%s) but the array returned %r instead of raising (rows %r)' % (
                              idx, merr, rr.observe(got), [r.tolist() for r in rows]))
        return
    empties = any(len(r) == 0 for r in exp) or len(exp) == 0
    if empties:
        fl.append('emptyrow' if len(exp) else 'norows')
    if empties and (ierr is not None or not _ok(got, exp)):
        ctx.violation('getitem:%s:%s' % (form, 'emptyrow' if len(exp) else 'norows'), case,
                      'index %r selects %s; got %s, list-of-rows gives %r (rows %r)' % (
                          idx, 'an empty row' if len(exp) else 'no rows', ('raise %r' % ierr) if ierr is not None else rr.observe(got),
                          rr.canon_rows(exp), [r.tolist() for r in rows]))
        return
    if ierr is not None:
        ctx.violation('getitem:%s:raises:%s:%s' % (form, type(ierr).__name__, '+'.join(fl)), case,
                      'index %r raised %r; list-of-rows gives %r (rows %r)' % (idx, ierr, rr.canon_rows(exp), [r.tolist() for r in rows]))
        return
    try:
        obs = rr.observe(got)
    except Exception as e:
        ctx.violation('getitem:%s:unreadable:%s' % (form, '+'.join(fl)), case, 'result of %r cannot be read back: %r' % (idx, e))
        return
    if obs[0] == 'ragged':
        try:
            flat_got = np.asarray(got.flatten()).tolist()
            ln = [int(x) for x in got.lengths]
            wfl = np.ravel(np.array(rr.flat_of(rr.canon_rows(exp)))).tolist() if len(rr.flat_of(exp)) else []
            if ln != [len(r) for r in exp] or np.ravel(np.array(flat_got)).tolist() != wfl:
                ctx.violation('getitem:%s:result_views_disagree' % form, case,
                              'index %r: rows %r but lengths %r / flatten %r' % (idx, obs[1], ln, flat_got))
                return
        except Exception as e:
            kind = 'norows' if len(exp) == 0 else ('emptyrow' if any(len(r) == 0 for r in exp) else 'other')
            ctx.violation('getitem:%s:result_unusable:%s' % (form, kind), case,
                          'index %r returned a ragged array whose flatten()/lengths raise %r' % (idx, e))
            return
    if not rr.matches(obs, exp):
        ctx.violation('getitem:%s:wrong_value:%s' % (form, '+'.join(fl)), case,
                      'index %r: got %r, list-of-rows gives %r (rows %r)' % (idx, obs, rr.canon_rows(exp), [r.tolist() for r in rows]))


def _ok(got, exp):
    try:
        return rr.matches(rr.observe(got), exp)
    except Exception:
        return False


def jidx(idx):
    if isinstance(idx, tuple):
        return {'t': [jidx(x) for x in idx]}
    if isinstance(idx, slice):
        return {'s': [idx.start, idx.stop, idx.step]}
    if isinstance(idx, np.ndarray):
        return {'a': idx.tolist()}
    return idx


def unj(x):
    if isinstance(x, dict):
        if 't' in x:
            return tuple(unj(v) for v in x['t'])
        if 's' in x:
            return slice(*x['s'])
        if 'a' in x:
            return np.array(x['a'])
        if 'mask' in x:
            return x
    return x


def check_attrs(A, rows, ctx, case, rank):
    ctx.ev()
    from enspara import ra
    L = [len(r) for r in rows]
    bad = []
    try:
        if list(A.lengths) != L:
            bad.append('lengths %r != %r' % (list(A.lengths), L))
        st = np.concatenate([[0], np.cumsum(L)[:-1]]).tolist()
        if list(A.starts) != st:
            bad.append('starts %r != %r' % (list(A.starts), st))
        if len(A) != len(rows):
            bad.append('len %r' % len(A))
        flat = np.concatenate(rows)
        if A.flatten().tolist() != flat.flatten().tolist():
            bad.append('flatten %r != %r' % (A.flatten().tolist(), flat.flatten().tolist()))
        if A.size != sum(r.size for r in rows):
            bad.append('size %r != %r' % (A.size, sum(r.size for r in rows)))
        if A.dtype != flat.dtype:
            bad.append('dtype %r != %r' % (A.dtype, flat.dtype))
        second = L[0] if len(set(L)) == 1 else None
        want_shape = (len(rows), second) if rank == 1 else (len(rows), second, 2)
        if tuple(A.shape) != want_shape:
            bad.append('shape %r != %r' % (tuple(A.shape), want_shape))
        it = [np.asarray(r).tolist() for r in A]
        if it != [r.tolist() for r in rows]:
            bad.append('iteration %r' % (it,))
    except Exception as e:
        bad.append('attribute access raised %r' % (e,))
    for b in bad:
        ctx.violation('attrs:%s' % b.split()[0], case, '%s (rows %r)' % (b, [r.tolist() for r in rows]))


def check_masks(A, rows, ctx, case):
    from enspara import ra
    L = [len(r) for r in rows]
    tot = sum(L)
    flat = np.concatenate(rows)
    masks = []
    if tot <= 6:
        masks = list(itertools.product((False, True), repeat=tot))
    else:
        masks = [tuple(bool((i * 7 + k) % 3 == 0) for i in range(tot)) for k in range(3)] + [(False,) * tot, (True,) * tot]
    for mk in masks:
        ctx.ev()
        ctx.guard('masks')
        M = ra.RaggedArray(np.array(mk, dtype=bool), lengths=L)
        want = flat[np.array(mk, dtype=bool)].tolist()
        c = dict(case, index={'mask': list(mk)})
        kind = 'allfalse' if not any(mk) else 'mixed'
        try:
            got = A[M]
            obs = rr.observe(got)
            vals = rr.flat_of(obs[1]) if obs[0] == 'ragged' else obs[1]
            if vals != want:
                ctx.violation('getitem:mask:wrong_value:%s' % kind, c, 'mask %r: got %r want %r' % (mk, obs, want))
        except Exception as e:
            ctx.violation('getitem:mask:raises:%s:%s' % (type(e).__name__, kind), c, 'mask %r raised %r (want %r)' % (mk, e, want))
        # ra.where on the mask
        try:
            wr, wc = ra.where(M)
            exp = [(i, j) for i in range(len(L)) for j in range(L[i]) if mk[sum(L[:i]) + j]]
            if list(zip([int(x) for x in wr], [int(x) for x in wc])) != exp:
                ctx.violation('where:wrong_value:%s' % kind, c, 'where(%r) = %r want %r' % (mk, (list(wr), list(wc)), exp))
        except Exception as e:
            ctx.violation('where:raises:%s:%s' % (type(e).__name__, kind), c, 'where(%r) raised %r' % (mk, e))
    # comparison masks
    if flat.ndim == 1:
        for thr in sorted({int(np.median(flat)), int(flat.max()), int(flat.min()) - 1}):
            ctx.ev()
            c = dict(case, index={'mask': 'cmp'})
            want = flat[flat > thr].tolist()
            kind = 'allfalse' if not want else 'mixed'
            try:
                got = A[A > thr]
                obs = rr.observe(got)
                vals = rr.flat_of(obs[1]) if obs[0] == 'ragged' else obs[1]
                if vals != want:
                    ctx.violation('getitem:mask:comparison:wrong_value:%s' % kind, c, 'A[A>%d] = %r want %r' % (thr, obs, want))
            except Exception as e:
                ctx.violation('getitem:mask:comparison:raises:%s:%s' % (type(e).__name__, kind), c, 'A[A>%d] raised %r' % (thr, e))


def run_case(lengths, rank, how, tier, ctx, only=None):
    rows = rr.mk_rows(lengths, 'int64', rank)
    case0 = {'lengths': list(lengths), 'rank': rank, 'constructor': how}
    try:
        A = build(rows, how)
    except Exception as e:
        ctx.violation('construct:raises:%s:%s' % (how, type(e).__name__), case0, 'constructor raised %r for rows %r' % (e, [r.tolist() for r in rows]))
        return
    ragged = len(set(lengths)) > 1
    if ragged:
        ctx.guard('ragged_arrays')
    if rank == 2:
        ctx.guard('rank2_elements')
    if only is not None:
        if isinstance(only, dict) and 'mask' in only:
            check_masks(A, rows, ctx, case0)
        elif only == 'attrs':
            check_attrs(A, rows, ctx, dict(case0, index='attrs'), rank)
        else:
            form = only[0]
            check_index(A, rows, form, only[1], ctx, dict(case0, index=jidx(only[1]), form=form), lengths, rank)
        return
    check_attrs(A, rows, ctx, dict(case0, index='attrs'), rank)
    ctx.state((tuple(lengths), rank, how, 'attrs'))
    for form, idx in index_menu(lengths, tier):
        if rank == 2 and form in ('list_list',) and how != 'arrays':
            continue
        case = dict(case0, index=jidx(idx), form=form)
        multi = form in ('slice', 'rowlist', 'slice_slice', 'list_slice', 'slice_int', 'slice_list', 'list_list', 'rowarray', 'array_array')
        ctx.state((tuple(lengths), rank, how, form, repr(idx)), nontrivial=ragged and multi)
        if form in ('slice_slice',):
            ctx.guard('two_dim_slices')
        if 'neg' in ''.join(flags_of(form, idx, lengths)) or (form in ('int', 'int_int') and (np.min(idx) < 0)):
            ctx.guard('negative_index')
        check_index(A, rows, form, idx, ctx, case, lengths, rank)
    if rank == 1:
        check_masks(A, rows, ctx, case0)


def run_shard(sh, ctx):
    tier, i = sh
    lengths = length_vectors(tier)[i]
    for rank in (1, 2):
        for how in CONSTRUCTORS:
            if rank == 2 and how in ('flat_list',):
                continue
            if tier == 'quick' and how in ('nested', 'flat_nd') and len(lengths) == 3 and i % 2:
                continue
            run_case(lengths, rank, how, tier, ctx)
    for dt in LEN_DTYPES:
        if tier == 'quick' and (i + LEN_DTYPES.index(dt)) % 3:
            continue
        run_lendtype_case(lengths, 'flat_nd:' + dt, ctx)
    if i < len(LONG):
        for dt in LONG[i][1]:
            run_lendtype_case(LONG[i][0], 'flat_nd:' + dt, ctx)
    ctx.sample({'lengths': list(lengths), 'constructors': CONSTRUCTORS, 'index_forms': 'full grammar'})


def replay(case, ctx):
    idx = case.get('index')
    if idx == 'attrs':
        only = 'attrs'
    elif isinstance(idx, dict) and 'mask' in idx:
        only = idx
    elif idx is None:
        only = 'attrs'
    else:
        only = (case['form'], unj(idx))
    if case.get('menu') == 'boundary':
        run_lendtype_case(tuple(case['lengths']), case['constructor'], ctx)
        return
    run_case(tuple(case['lengths']), case['rank'], case['constructor'], ctx.tier, ctx, only=only)
