"""C17 - pathways are real, bottleneck-optimal and never over-explain the flux.

E1: (a) all small weighted digraphs x all disjoint (sources, sinks) x both removal schemes x limits;
(b) conserved acyclic flows built as superpositions of source->sink paths.
Oracle: brute-force enumeration of all simple source->sink paths on the (independently tracked) residual graph.
"""
import itertools

import numpy as np

from ..models import tptref as tr

ID = 'C17'
RULE = ('(a) weighted digraphs: all n=3 over {0,1,2,3}; n=4 over {0,1,2} with <=4 edges (T: <=6) and over {0,2,3} with <=4 '
        'edges x all disjoint non-empty (sources,sinks) (Q, n=4: alternating halves of the 50 pairs) x scheme {subtract,bottleneck} x num_paths {1,2,inf} x flux_cutoff '
        '{0.3,0.9,1-1e-10}; (b) conserved acyclic flows: every superposition of <=3 source->sink paths with weights {1,0.5} '
        'on topologically ordered DAGs n<=5 with 1-2 sources/sinks, also scaled by 1e-9, 1e-12 and 3e6 (the statement is scale free); (c) fan-in ladders with 5..10 states (source -> m<=5 feeders -> hub -> chain -> sink, every feeder numbering): a state whose best known flux improves m times; state=(graph,A,B,scheme,limits); non-trivial = >=2 '
        'distinct source->sink paths exist')
ASSUMPTIONS = ['ties (several paths with the maximal bottleneck) are not resolved by the oracle: any maximiser is accepted',
               'bottleneck scheme: when several edges of a path tie for the minimum the oracle branches over every choice of the '
               'ONE deleted edge and accepts the output iff some sequence of choices explains every path and the stopping point',
               'flux = -inf from top_path is the API\'s "no path" answer and is checked against the brute-force search']
GUARDS = {'tied_bottleneck_branching': 200, 'repeated_improvement_graphs': 50, 'scaled_fluxes': 500, 'multi_path_graphs': 500, 'no_path': 500, 'conserved': 200, 'multi_sink': 500, 'cutoff_stop': 100,
          'count_stop': 500, 'second_path_differs': 500}
NSH = {'quick': 64, 'thorough': 256}
CUTS = (0.3, 0.9, 1 - 1e-10)


def digraphs(tier):
    out = []
    off3 = [(i, j) for i in range(3) for j in range(3) if i != j]
    for w in itertools.product((0, 1, 2, 3), repeat=6):
        G = np.zeros((3, 3))
        for (i, j), x in zip(off3, w):
            G[i, j] = x
        out.append(G)
    off4 = [(i, j) for i in range(4) for j in range(4) if i != j]
    maxe = 4 if tier == 'quick' else 6
    for vals in ((1, 2), (2, 3)):
        for k in range(1, (maxe if vals == (1, 2) else 4) + 1):
            for edges in itertools.combinations(off4, k):
                for w in itertools.product(vals, repeat=k):
                    if vals == (2, 3) and 3 not in w:
                        continue
                    G = np.zeros((4, 4))
                    for (i, j), x in zip(edges, w):
                        G[i, j] = x
                    out.append(G)
    return out


def conserved_flows(tier):
    """(G, sources, sinks) with Kirchhoff conservation at every intermediate node"""
    out = []
    for n in (3, 4, 5):
        for ns, nt in ((1, 1), (2, 1), (1, 2), (2, 2)):
            if ns + nt > n:
                continue
            sources = list(range(ns))
            sinks = list(range(n - nt, n))
            mids = list(range(ns, n - nt))
            paths = []
            for s in sources:
                for t in sinks:
                    for r in range(len(mids) + 1):
                        for mid in itertools.combinations(mids, r):
                            paths.append((s,) + mid + (t,))
            maxk = 3
            for k in range(1, maxk + 1):
                combos = list(itertools.combinations(range(len(paths)), k))
                if tier == 'quick' and len(combos) > 400:
                    combos = combos[::max(1, len(combos) // 400)]
                for combo in combos:
                    for w in itertools.product((1.0, 0.5), repeat=k):
                        G = np.zeros((n, n))
                        for pi, x in zip(combo, w):
                            p = paths[pi]
                            for a, b in zip(p[:-1], p[1:]):
                                G[a, b] += x
                        out.append((G, sources, sinks))
    return out


def shards(tier, seed):
    return [('pinned', tier, 0)] + [('graphs', tier, i) for i in range(NSH[tier])] + [('flows', tier, i) for i in range(8)] + [('ladders', tier, i) for i in range(4)]


def simple_paths(G, sources, sinks):
    """all simple paths source->sink along positive edges: list of (path, bottleneck)"""
    n = len(G)
    out = []
    sset = set(sources)

    def rec(path, bott):
        u = path[-1]
        if u in sinks and len(path) > 1:
            out.append((tuple(path), bott))
        for v in range(n):
            if G[u, v] > 0 and v not in path and v not in sset:
                rec(path + [v], min(bott, G[u, v]))
    for s in sources:
        rec([s], np.inf)
    return out


def check_path(G, path, flux, sources, sinks, tol=1e-12):
    """clauses for one returned path on residual G; returns error string or None"""
    path = [int(p) for p in path]
    if len(path) < 2:
        return 'path %r too short' % (path,)
    if path[0] not in sources or path[-1] not in sinks:
        return 'path %r does not go from a source to a sink' % (path,)
    if len(set(path)) != len(path):
        return 'path %r is not simple' % (path,)
    caps = [G[a, b] for a, b in zip(path[:-1], path[1:])]
    if min(caps) <= 0:
        return 'path %r uses an edge without positive residual flux (%r)' % (path, caps)
    if abs(min(caps) - flux) > tol:
        return 'path %r reported flux %r but its smallest edge is %r' % (path, flux, min(caps))
    return None


def check_case(case, ctx):
    from enspara import tpt
    G = np.array(case['G'], float) * case.get('scale', 1.0)
    tol = 1e-12 * (G.max() if G.max() > 0 else 1.0)       # all tolerances are relative to the flux scale
    if case.get('scale', 1.0) != 1.0:
        ctx.guard('scaled_fluxes')
    A, B = case['A'], case['B']
    scheme, npaths, cut = case['scheme'], case['num_paths'], case['cutoff']
    n = len(G)
    ctx.ev()
    allp = simple_paths(G, A, B)
    ctx.state((G.tobytes(), n, tuple(A), tuple(B), scheme, str(npaths), cut), nontrivial=len(allp) >= 2)
    if len(allp) >= 2:
        ctx.guard('multi_path_graphs')
    if len(B) > 1:
        ctx.guard('multi_sink')
    if case.get('conserved'):
        ctx.guard('conserved')
    G0 = G.copy()
    # ---- top_path
    try:
        p, f = tpt.top_path(A, B, G)
    except Exception as e:
        ctx.violation('top_path:raises:%s' % type(e).__name__, case, 'top_path raised %r on %r' % (e, case))
        return
    if not allp:
        ctx.guard('no_path')
        if not (np.isinf(f) and f < 0):
            ctx.violation('top_path:phantom_path', case, 'no source->sink path exists but top_path returned %r flux %r' % (p, f))
    else:
        best = max(b for _, b in allp)
        err = check_path(G, p, f, A, B, tol)
        if err:
            ctx.violation('top_path:invalid', case, '%s (%r)' % (err, case))
        elif abs(f - best) > tol:
            ctx.violation('top_path:not_widest', case, 'top path %r has bottleneck %r but a path with %r exists (%r)' % (list(map(int, p)), f, best, case))
    # ---- paths
    kw = {'remove_path': scheme, 'flux_cutoff': cut}
    if npaths != 'inf':
        kw['num_paths'] = npaths
    try:
        ps, fs = tpt.paths(A, B, G, **kw)
    except Exception as e:
        ctx.violation('paths:raises:%s' % type(e).__name__, case, 'paths raised %r on %r' % (e, case))
        return
    if not np.array_equal(G, G0):
        ctx.violation('paths:mutates_input', case, 'caller flux matrix modified')
    fs = np.asarray(fs, float)
    if len(ps) != len(fs):
        ctx.violation('paths:lengths', case, '%d paths, %d fluxes' % (len(ps), len(fs)))
        return
    lim = np.inf if npaths == 'inf' else npaths
    if len(ps) > lim:
        ctx.violation('paths:too_many', case, '%d paths returned, num_paths=%r' % (len(ps), npaths))
    if len(ps) == lim:
        ctx.guard('count_stop')
    if allp and len(ps) == 0:
        ctx.violation('paths:none_found', case, 'paths exist but none returned (%r)' % (case,))
    if (np.diff(fs) > tol).any():
        ctx.violation('paths:flux_increases', case, 'fluxes %r (%r)' % (fs.tolist(), case))
    total = G[A, :].sum()
    if fs.sum() > total + tol:
        inter = [i for i in range(n) if i not in A and i not in B]
        conserved = all(abs(G[:, i].sum() - G[i].sum()) < 10 * tol for i in inter)
        ctx.violation('paths:sum_exceeds_outflow:%s:%s' % (scheme, 'conserved' if conserved else 'nonconserved'), case,
                      'path fluxes %r sum to %r > outflow of sources %r (%r)' % (fs.tolist(), fs.sum(), total, case))
    # per-path clauses on the independently tracked residual graph.  The bottleneck scheme deletes ONE smallest edge of
    # the path; when several edges tie for the minimum the statement does not say which, so the oracle branches over
    # every choice and accepts the output if SOME sequence of choices explains all of it (including why it stopped).
    ps_l = [[int(x) for x in p] for p in ps]
    if len(ps_l) > 1 and ps_l[0] != ps_l[1]:
        ctx.guard('second_path_differs')
    best_fail = [(-1, None, None)]      # (depth reached, signature, message)

    def fail(depth, sig, msg):
        if depth > best_fail[0][0]:
            best_fail[0] = (depth, sig, msg)
        return False

    def explain(R, k):
        if k == len(ps_l):
            # termination cause: if neither limit was hit, no residual path may remain
            if len(ps_l) < lim and total > 0 and fs.sum() / total < cut - 1e-9 and simple_paths(R, A, B):
                return fail(k, 'paths:stopped_early:%s' % scheme,
                            'returned %d paths explaining %.6g of the flux (cutoff %r, num_paths %r) although a residual path remains (%r)' % (
                                len(ps_l), fs.sum() / total, cut, npaths, case))
            return True
        p, f = ps_l[k], fs[k]
        err = check_path(R, p, f, A, B, tol)
        if err:
            return fail(k, 'paths:invalid_path:%s' % scheme, 'path #%d: %s (%r)' % (k, err, case))
        best = max(b for _, b in simple_paths(R, A, B))
        if abs(f - best) > tol:
            return fail(k, 'paths:not_widest_in_residual:%s' % scheme,
                        'path #%d %r flux %r but residual graph has a path with bottleneck %r (%r)' % (k, p, f, best, case))
        edges = list(zip(p[:-1], p[1:]))
        caps = [R[a, b] for a, b in edges]
        if scheme == 'subtract':
            R2 = R.copy()
            for a, b in edges:
                R2[a, b] -= f          # the same float operation the scheme performs; tied minima become exactly 0
            return explain(R2, k + 1)
        tied = [e for e, c in zip(edges, caps) if abs(c - min(caps)) <= 1e-3 * tol]
        if len(tied) > 1:
            ctx.guard('tied_bottleneck_branching')
        for a, b in tied:
            R2 = R.copy()
            R2[a, b] = 0.0
            if explain(R2, k + 1):
                return True
        return False

    if not explain(G.copy(), 0):
        _, sig, msg = best_fail[0]
        ctx.violation(sig, case, msg)
    elif case.get('conserved') and len(ps_l) < lim and total > 0:
        if fs.sum() / total < cut - 1e-9:
            ctx.violation('paths:conserved_flux_not_explained:%s' % scheme, case,
                          'conserved flow: explained %.12g < cutoff %r with %d paths (num_paths %r) (%r)' % (
                              fs.sum() / total, cut, len(ps_l), npaths, case))
        else:
            ctx.guard('cutoff_stop')


def ladders(tier):
    """graphs in which the best known flux into one state improves many times before the sink is reached (a lazy priority
    queue holds several stale entries for it): source -> m feeders (decreasing flux) -> hub (increasing flux) -> chain -> sink,
    plus a trickle source -> sink; every numbering of the feeders"""
    out = []
    for m in (2, 3, 4, 5):
        for L in (0, 1, 2):
            n = m + 3 + L
            perms = list(itertools.permutations(range(m)))
            if tier == 'quick':
                perms = perms[::max(1, len(perms) // 6)]
            for perm in perms:
                G = np.zeros((n, n))
                hub = m + 1
                for rank_, slot in enumerate(perm):
                    G[0, 1 + slot] = 10.0 - rank_
                    G[1 + slot, hub] = 1.0 + rank_
                prev = hub
                for t in range(L):
                    G[prev, hub + 1 + t] = 20.0
                    prev = hub + 1 + t
                G[prev, n - 1] = 20.0
                G[0, n - 1] = 0.5
                out.append(G)
                G2 = G.copy()
                G2[0, n - 1] = 0.0                      # without the trickle: the sink is only reachable through the hub
                out.append(G2)
    return out


def run_shard(sh, ctx):
    kind, tier, i = sh
    if kind == 'pinned':
        # the recorded input of the open finding (bottleneck scheme on a non-conserved graph)
        G = np.zeros((4, 4))
        G[0, 1], G[1, 2], G[1, 3] = 3, 2, 2
        case = {'G': G.tolist(), 'A': [0], 'B': [2, 3], 'scheme': 'bottleneck', 'num_paths': 'inf', 'cutoff': CUTS[2]}
        check_case(case, ctx)
        ctx.sample(case)
        return
    if kind == 'ladders':
        ls = ladders(tier)
        for j in range(i, len(ls), 4):
            G = ls[j]
            for scheme in ('subtract', 'bottleneck'):
                for npaths in ('inf', 1):
                    ctx.guard('repeated_improvement_graphs')
                    case = {'G': G.tolist(), 'A': [0], 'B': [len(G) - 1], 'scheme': scheme, 'num_paths': npaths, 'cutoff': CUTS[2]}
                    check_case(case, ctx)
        ctx.sample(case)
        return
    if kind == 'graphs':
        gs = digraphs(tier)
        for j in range(i, len(gs), NSH[tier]):
            G = gs[j]
            jj = j // NSH[tier]
            pairs = tr.ab_pairs(len(G))
            if tier == 'quick' and len(G) == 4:
                pairs = pairs[jj % 2::2]        # alternate halves of the 50 (A,B) pairs; T uses all
            for A, B in pairs:
                for scheme in ('subtract', 'bottleneck'):
                    opts = [('inf', CUTS[2])]
                    if jj % 3 == 0:
                        opts += [(1, CUTS[2]), (2, CUTS[2]), ('inf', CUTS[0]), ('inf', CUTS[1])]
                    for npaths, cut in opts:
                        case = {'G': G.tolist(), 'A': A, 'B': B, 'scheme': scheme, 'num_paths': npaths, 'cutoff': cut}
                        check_case(case, ctx)
                    if jj % 7 == 0:
                        check_case({'G': G.tolist(), 'A': A, 'B': B, 'scheme': scheme, 'num_paths': 'inf', 'cutoff': CUTS[2],
                                    'scale': 1e-9}, ctx)
            if j % 499 == 0:
                ctx.sample(case)
    else:
        fl = conserved_flows(tier)
        for j in range(i, len(fl), 8):
            G, A, B = fl[j]
            for scheme in ('subtract', 'bottleneck'):
                for npaths in ('inf', 1, 2):
                    for cut in CUTS:
                        case = {'G': G.tolist(), 'A': A, 'B': B, 'scheme': scheme, 'num_paths': npaths, 'cutoff': cut,
                                'conserved': True}
                        check_case(case, ctx)
                # the statement is scale free: physical fluxes are ~1e-9, counts-derived ones ~1e6
                for scale in (1e-9, 1e-12, 3e6):
                    check_case({'G': G.tolist(), 'A': A, 'B': B, 'scheme': scheme, 'num_paths': 'inf', 'cutoff': CUTS[2],
                                'conserved': True, 'scale': scale}, ctx)
        ctx.sample(case)


def replay(case, ctx):
    check_case(case, ctx)
