"""C04 - every builder returns a valid, stationary and (where promised) reversible model.

E1: all small count matrices x 8 containers x prior counts x eq flag x 3 builders.
Runs with the NaN-poisoning allocator armed (fresh numpy buffers start as NaN).
"""
import numpy as np
import scipy.sparse as sp

from ..models import msmref as mr

ID = 'C04'
POISON_WORD = 0x7ff8000000000000   # NaN
RULE = ('count matrices: all n=2 over {0..3}, all n=3 over {0,1,2}, a 1/23 sample of n=4 binary patterns (T: + n=3 over {0,1,5}, n=4 binary off-diagonal with '
        'diagonal in {0,2}) with every row having outgoing counts x containers {ndarray,csr,csc,coo,lil,dok,dia,bsr (single block and multi-block)}_matrix '
        'x prior_counts {None,1,0.5; asymmetric / row-normalised / triangular (n,n) arrays on every 3rd matrix} x calculate_eq_probs {T,F}; sparse reversible counts with 1000/1002 states (ARPACK population path); on every 3rd matrix additionally float64/int32 counts and counts scaled by 0.25 and 1e-3 (row totals inside (0,1)), '
        'Fortran-ordered and transposed-view dense input, and a second call on the same caller object; x builders {normalize,transpose,mle (mle: strongly '
        'connected only, all containers on every 5th matrix; Q: normalize/transpose use all 8 containers on every 4th '
        'matrix and {ndarray,csr,lil} on the rest)}; state=(matrix,container,prior,eq,builder); '
        'non-trivial = strongly connected matrix with >=1 zero entry or asymmetry')
ASSUMPTIONS = ['tolerances: row sums 1e-12, detailed balance / stationarity 1e-9, dense-vs-sparse 1e-12',
               'stationarity asserted only for strongly connected inputs (unique stationary vector)',
               'scipy sparse *matrix* containers only (the property\'s list); sparse arrays are not in scope',
               'NEP-49 poison allocator fills fresh numpy buffers with NaN during the run']
GUARDS = {'fractional_row_totals': 300, 'big_sparse': 8, 'array_prior': 300, 'float_counts': 500, 'dense_layouts': 200, 'sparse_in': 1000, 'prior': 1000, 'strongly_connected': 1000, 'not_strongly_connected': 100,
          'mle_sparse': 100, 'eq_off': 1000}
NSH = {'quick': 64, 'thorough': 256}
CONTAINERS = ('ndarray', 'csr', 'csc', 'coo', 'lil', 'dok', 'dia', 'bsr', 'bsrblocks')
PRIORS = (None, 1, 0.5)


def matrices(tier):
    out = []
    for C in mr.all_matrices(2, range(4)):
        out.append(C)
    for C in mr.all_matrices(3, (0, 1, 2)):
        out.append(C)
    import itertools
    if tier == 'quick':
        k = 0
        for off in itertools.product((0, 1), repeat=12):
            k += 1
            if k % 23:
                continue
            C = np.zeros((4, 4), dtype=int)
            C[~np.eye(4, dtype=bool)] = off
            C[np.diag_indices(4)] = (2, 0, 1, 0)
            out.append(C)
    if tier == 'thorough':
        for C in mr.all_matrices(3, (0, 1, 5)):
            if (C == 5).any():
                out.append(C)
        import itertools
        for off in itertools.product((0, 1), repeat=12):
            for diag in itertools.product((0, 2), repeat=4):
                C = np.zeros((4, 4), dtype=int)
                C[~np.eye(4, dtype=bool)] = off
                C[np.diag_indices(4)] = diag
                out.append(C)
    return [C for C in out if (C.sum(axis=1) > 0).all()]


def shards(tier, seed):
    return [(tier, i) for i in range(NSH[tier])] + [('big', 0)]


def wrap(C, cont, dtype='int64'):
    C = np.array(C).astype(dtype)
    if cont == 'ndarray':
        return C
    if cont == 'ndarrayF':
        return np.asfortranarray(C)
    if cont == 'ndarrayT':
        return np.ascontiguousarray(C.T).T       # non-owning transposed view
    if cont == 'bsrblocks':                       # several blocks (scipy's default picks one n x n block for small n)
        n = len(C)
        return sp.bsr_matrix(C, blocksize=(2, 2) if n % 2 == 0 and n > 2 else (1, 1))
    return getattr(sp, cont + '_matrix')(C)


def prior_array(name, n):
    """(n, n) prior count matrices: asymmetric / row-normalised / triangular"""
    i, j = np.indices((n, n))
    if name == 'asym':
        return (1 + i + 2 * j) / 4.0
    if name == 'rownorm':
        P = 1.0 + ((i + 2 * j) % 3)
        return P / P.sum(axis=1, keepdims=True)
    if name == 'triu':
        return np.triu(np.ones((n, n))) * 0.5
    raise ValueError(name)


def snap(M):
    if sp.issparse(M):
        if M.format in ('csr', 'csc', 'bsr'):
            return (M.format, M.shape, M.data.tobytes(), M.indices.tobytes(), M.indptr.tobytes())
        if M.format == 'coo':
            return ('coo', M.shape, M.data.tobytes(), M.row.tobytes(), M.col.tobytes())
        if M.format == 'dia':
            return ('dia', M.shape, M.data.tobytes(), M.offsets.tobytes())
        return (M.format, M.shape, M.toarray().tobytes(), M.dtype.str)
    return ('nd', M.shape, M.dtype.str, M.tobytes())


def check_case(case, ctx):
    from enspara.msm import builders
    C = np.array(case['C'])
    if case.get('scale'):
        C = C * case['scale']             # real-valued counts (re-weighted / down-scaled), row totals may lie in (0, 1)
        ctx.guard('fractional_row_totals')
    cont, prior, eq, bname = case['container'], case['prior'], case['eq'], case['builder']
    n = len(C)
    ctx.ev()
    if isinstance(prior, str):            # array-valued prior, encoded by name in the case
        prior = prior_array(prior, n_ := len(C))
        ctx.guard('array_prior')
    sc = mr.strongly_connected(C + (0 if prior is None else prior))
    key = (C.tobytes(), n, cont, repr(case['prior']), eq, bname, case.get('dtype', 'int64'), case.get('scale'))
    ctx.state(key, nontrivial=bool(sc and ((C == 0).any() or not np.array_equal(C, C.T))))
    ctx.guard('strongly_connected' if sc else 'not_strongly_connected')
    if not cont.startswith('ndarray'):
        ctx.guard('sparse_in')
        if bname == 'mle':
            ctx.guard('mle_sparse')
    if prior is not None:
        ctx.guard('prior')
    if not eq:
        ctx.guard('eq_off')
    M = wrap(C, cont, case.get('dtype', 'int64'))
    before = snap(M)
    if case.get('dtype', 'int64') != 'int64':
        ctx.guard('float_counts')
    if cont in ('ndarrayF', 'ndarrayT'):
        ctx.guard('dense_layouts')
    fn = getattr(builders, bname)
    tag = bname
    ctag = 'sparse' if not cont.startswith('ndarray') else 'dense'
    try:
        Cout, T, pi = fn(M, prior_counts=(None if prior is None else (prior.copy() if isinstance(prior, np.ndarray) else prior)), calculate_eq_probs=eq)
    except Exception as e:
        ctx.violation('%s:raises:%s:%s' % (tag, ctag, type(e).__name__), case, '%s raised %r on %r' % (bname, e, case))
        return
    if snap(M) != before:
        ctx.violation('%s:mutates_input:%s' % (tag, cont), case, 'caller matrix modified (%r)' % (case,))
    # calling again with the very same caller object must give the same answer
    if case.get('twice'):
        try:
            C2, T2_, pi2_ = fn(M, prior_counts=prior, calculate_eq_probs=eq)
            if np.abs(mr.to_dense(T2_).astype(float) - mr.to_dense(T).astype(float)).max() > 0 or \
                    np.abs(mr.to_dense(C2).astype(float) - mr.to_dense(Cout).astype(float)).max() > 0:
                ctx.violation('%s:second_call_differs:%s' % (tag, cont), case, 'second call on the same matrix object gave a different result (%r)' % (case,))
        except Exception as e:
            ctx.violation('%s:second_call_raises:%s' % (tag, type(e).__name__), case, repr(e))
    # container type
    for name, out in (('T', T), ('C', Cout)):
        ok = type(out) is type(M) or (prior is not None and not cont.startswith('ndarray') and isinstance(out, np.ndarray)
                                      and type(out) is np.ndarray)
        if not ok:
            ctx.violation('%s:container:%s:%s' % (tag, name, cont), case, 'output %s has type %s for input %s (prior=%r)' % (
                name, type(out).__name__, type(M).__name__, prior))
    Td = mr.to_dense(T).astype(float)
    Cp = C.astype(float) + (0 if prior is None else np.asarray(prior, float))
    if Td.shape != (n, n) or not np.isfinite(Td).all():
        ctx.violation('%s:T_invalid:%s' % (tag, ctag), case, 'T=%r for %r' % (Td.tolist(), case))
        return
    if (Td < -1e-15).any():
        ctx.violation('%s:negative_prob' % tag, case, 'T=%r' % (Td.tolist(),))
    rs = Td.sum(axis=1)
    ctx.maxi('max_rowsum_residual', np.abs(rs - 1).max())
    if np.abs(rs - 1).max() > 1e-12:
        ctx.violation('%s:rows_not_stochastic' % tag, case, 'row sums %r for %r' % (rs.tolist(), case))
    # values
    if bname == 'normalize':
        want = Cp / Cp.sum(axis=1, keepdims=True)
        if np.abs(Td - want).max() > 1e-14:
            ctx.violation('normalize:value:%s' % ctag, case, 'T=%r want %r' % (Td.tolist(), want.tolist()))
        if np.abs(mr.to_dense(Cout) - Cp).max() > 1e-14:
            ctx.violation('normalize:counts_out', case, 'C_out=%r want %r' % (mr.to_dense(Cout).tolist(), Cp.tolist()))
    elif bname == 'transpose':
        S = Cp + Cp.T
        want = S / S.sum(axis=1, keepdims=True)
        if np.abs(Td - want).max() > 1e-14:
            ctx.violation('transpose:value:%s' % ctag, case, 'T=%r want %r' % (Td.tolist(), want.tolist()))
        if np.abs(mr.to_dense(Cout) - S / 2).max() > 1e-14:
            ctx.violation('transpose:counts_out', case, 'C_out=%r want %r' % (mr.to_dense(Cout).tolist(), (S / 2).tolist()))
    else:
        if np.abs(mr.to_dense(Cout) - Cp).max() > 1e-14:
            ctx.violation('mle:counts_out', case, 'C_out=%r want %r' % (mr.to_dense(Cout).tolist(), Cp.tolist()))
        # prior equivalence & dense/sparse agreement against the dense run on C+prior
        try:
            _, T2, pi2 = fn(Cp.copy(), calculate_eq_probs=True)
            if np.abs(Td - np.asarray(T2)).max() > 1e-12:
                ctx.violation('mle:differs_from_dense_on_C_plus_prior:%s' % ctag, case, 'T=%r vs %r' % (Td.tolist(), np.asarray(T2).tolist()))
        except Exception:
            pass
    # populations
    if not eq:
        if pi is not None and bname != 'mle':
            ctx.violation('%s:eq_returned_when_not_asked' % tag, case, 'pi=%r' % (pi,))
        return
    if pi is None:
        ctx.violation('%s:no_populations' % tag, case, 'calculate_eq_probs=True but populations are None')
        return
    pi = np.asarray(pi)
    if pi.shape != (n,) or not np.isfinite(pi.astype(float)).all():
        ctx.violation('%s:pi_invalid:%s' % (tag, ctag), case, 'pi=%r shape %s' % (pi, pi.shape))
        return
    if np.iscomplexobj(pi):
        ctx.violation('%s:pi_complex' % tag, case, 'pi dtype %s' % pi.dtype)
        return
    if sc:
        r = mr.stationary_residuals(Td, pi)
        ctx.maxi('max_stationarity_residual', max(r['sum'], r['stat']))
        if r['sum'] > 1e-9 or r['stat'] > 1e-9 or r['neg'] > 1e-12:
            ctx.violation('%s:not_stationary:%s' % (tag, ctag), case, 'residuals %r pi=%r T=%r' % (r, pi.tolist(), Td.tolist()))
        if bname in ('transpose', 'mle'):
            db = mr.detailed_balance_residual(Td, pi)
            ctx.maxi('max_detailed_balance_residual', db)
            if db > 1e-9:
                ctx.violation('%s:detailed_balance:%s' % (tag, ctag), case, 'residual %g pi=%r T=%r' % (db, pi.tolist(), Td.tolist()))
    elif bname == 'transpose':
        # symmetrised counts are reversible w.r.t. their row sums regardless of connectivity
        db = mr.detailed_balance_residual(Td, pi)
        if db > 1e-9 or abs(pi.sum() - 1) > 1e-9:
            ctx.violation('transpose:detailed_balance:%s' % ctag, case, 'residual %g' % db)


def check_big(case, ctx):
    """sparse counts with >= 1000 states: the population calculation takes the ARPACK path"""
    from enspara.msm import builders
    from .c16 import big_chain, big_chain_reference
    n, cont, bname = case['n'], case['container'], case['builder']
    ctx.ev()
    ctx.guard('big_sparse')
    ctx.state(('big', n, cont, bname), nontrivial=True)
    T0 = big_chain(n, 0.25, 0.5)
    _, pi0 = big_chain_reference(T0)
    C = np.round(pi0[:, None] * T0 * 3e6)        # reversible integer counts, non-uniform populations
    M = getattr(sp, cont + '_matrix')(C)
    try:
        Cout, T, pi = getattr(builders, bname)(M)
    except Exception as e:
        ctx.violation('%s:big_sparse:raises:%s' % (bname, type(e).__name__), case, repr(e))
        return
    Td = mr.to_dense(T).astype(float)
    r = mr.stationary_residuals(Td, pi)
    if type(T) is not type(M) or np.abs(Td.sum(axis=1) - 1).max() > 1e-12:
        ctx.violation('%s:big_sparse:T_invalid' % bname, case, 'type %s row sums off by %g' % (type(T).__name__, np.abs(Td.sum(axis=1) - 1).max()))
    if r['sum'] > 1e-8 or r['stat'] > 1e-8 or r['neg'] > 1e-9:
        ctx.violation('%s:not_stationary:big_sparse' % bname, case, 'n=%d %s: residuals %r' % (n, cont, r))


def run_shard(sh, ctx):
    if sh[0] == 'big':
        for n in (1000, 1002):
            for cont in ('csr', 'coo'):
                for bname in ('normalize', 'transpose'):
                    check_big({'kind': 'big', 'n': n, 'container': cont, 'builder': bname}, ctx)
        return
    tier, i = sh
    ms = matrices(tier)
    for j in range(i, len(ms), NSH[tier]):
        C = ms[j]
        sc0 = mr.strongly_connected(C)
        for bname in ('normalize', 'transpose', 'mle'):
            for cont in CONTAINERS:
                if tier == 'quick' and bname != 'mle' and cont not in ('ndarray', 'csr', 'lil') \
                        and (j // NSH[tier]) % 4 != 0 and not (cont == 'bsrblocks' and len(C) == 4):
                    continue
                if bname == 'mle':
                    if not sc0:
                        continue
                    if cont not in ('ndarray', 'csr') and (j // NSH[tier]) % 5 != 0:
                        continue
                for prior in PRIORS:
                    if bname == 'mle' and prior == 0.5 and cont != 'ndarray':
                        continue
                    for eq in (True, False):
                        if bname == 'mle' and not eq and prior is not None:
                            continue
                        case = {'C': C.tolist(), 'container': cont, 'prior': prior, 'eq': eq, 'builder': bname}
                        check_case(case, ctx)
            # array-valued prior counts (asymmetric, row-normalised, triangular)
            if (j // NSH[tier]) % 3 == 1 and (bname != 'mle' or sc0):
                for cont in ('ndarray', 'csr', 'coo', 'lil'):
                    if bname == 'mle' and cont not in ('ndarray', 'csr'):
                        continue
                    for pname in ('asym', 'rownorm', 'triu'):
                        check_case({'C': C.tolist(), 'container': cont, 'prior': pname, 'eq': True, 'builder': bname}, ctx)
            # float-valued counts (e.g. the output of a previous transpose), dense memory layouts, repeated use
            if (j // NSH[tier]) % 3 == 0 and (bname != 'mle' or sc0):
                for cont in ('ndarray', 'ndarrayF', 'ndarrayT', 'csr', 'csc', 'coo', 'lil'):
                    if bname == 'mle' and cont not in ('ndarray', 'ndarrayF', 'csr'):
                        continue
                    for dtype in ('float64', 'int32') if cont in ('ndarray', 'csr', 'coo', 'lil') else ('float64',):
                        for prior in (None, 1):
                            case = {'C': C.tolist(), 'container': cont, 'prior': prior, 'eq': True, 'builder': bname,
                                    'dtype': dtype, 'twice': True}
                            check_case(case, ctx)
                        if dtype == 'float64':
                            for scale in ((0.25, 0.001) if bname != 'mle' else (0.25,)):
                                check_case({'C': C.tolist(), 'container': cont, 'prior': None, 'eq': True, 'builder': bname,
                                            'dtype': 'float64', 'scale': scale}, ctx)
        if j % 499 == 0:
            ctx.sample(case)


def replay(case, ctx):
    if case.get('kind') == 'big':
        check_big(case, ctx)
    else:
        check_case(case, ctx)
