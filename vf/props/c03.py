"""C03 - transition counts equal the exact number of lagged state pairs.

E1 small-scope enumeration: every ordered set of <=2 (quick) / <=3 (thorough)
trajectories, each any state sequence of length 1..4 (quick) / 1..5 (thorough;
triples use length <=3) over {0,1,2}; every lag 1..L+1 (beyond every length);
sliding on/off; max_n_states in {None, observed, observed+2}; four encodings
(RaggedArray from rows, RaggedArray from flat+lengths, -1 padded rectangle, wider int32 rectangle).
A 1-D object array of rows is *rejected* by the API (DataInvalid) and is therefore not an encoding.  Oracle: double loop.
"""
import itertools

import numpy as np

ID = 'C03'
RULE = ('all ordered sets of <=2 (T: <=3) trajectories over states {0,1,2} with lengths 1..4 '
        '(T: 1..5) x lag 1..5 (T: 1..6) x sliding x max_n_states{None,obs,obs+2} x 4 encodings; '
        'state = (trajectory set, lag, sliding, n_states); non-trivial = count matrix with >=1 '
        'counted pair; oracle = double loop over (t,t+lag) inside each trajectory')
ASSUMPTIONS = ['state alphabet {0,1,2} and lengths <=5 are representative (small-scope hypothesis)',
               '-1 appears only as trailing padding (the only use the property describes)']
GUARDS = {'short_traj_lt_lag': 1000, 'nonsliding_differs': 1000, 'padded_rows': 1000,
          'equal_length_rows': 1000}


def seqs(maxlen, nst=3):
    out = []
    for L in range(1, maxlen + 1):
        out.extend(itertools.product(range(nst), repeat=L))
    return out


def shards(tier, seed):
    if tier == 'quick':
        S = seqs(4)
        sh = [('pairs', 4, i) for i in range(len(S))] + [('singles', 4, 0)]
    else:
        S5 = seqs(5)
        sh = [('pairs', 5, i) for i in range(len(S5))] + [('singles', 5, 0)]
        S3 = seqs(3)
        sh += [('triples', 3, i) for i in range(len(S3))]
    return sh


def oracle(trajs, lag, sliding, n):
    C = np.zeros((n, n), dtype=np.int64)
    for tr in trajs:
        for t in range(len(tr)):
            if t + lag < len(tr) and (sliding or t % lag == 0):
                C[tr[t], tr[t + lag]] += 1
    return C


def encode(trajs, enc):
    from enspara import ra
    if enc == 'ragged':
        return ra.RaggedArray([list(t) for t in trajs])
    if enc == 'padded':
        L = max(len(t) for t in trajs)
        a = -np.ones((len(trajs), L), dtype=int)
        for i, t in enumerate(trajs):
            a[i, :len(t)] = t
        return a
    if enc == 'padded_wide':   # one extra all-padding column
        L = max(len(t) for t in trajs) + 1
        a = -np.ones((len(trajs), L), dtype=np.int32)
        for i, t in enumerate(trajs):
            a[i, :len(t)] = t
        return a
    if enc == 'ragged_flat':
        return ra.RaggedArray(array=np.concatenate([np.array(t, dtype=int) for t in trajs]),
                              lengths=[len(t) for t in trajs])
    raise ValueError(enc)


ENCS = ('ragged', 'padded', 'padded_wide', 'ragged_flat')


def call(trajs, lag, sliding, mns, enc):
    from enspara.msm.transition_matrices import assigns_to_counts
    a = encode(trajs, enc)
    C = assigns_to_counts(a, lag_time=lag, max_n_states=mns, sliding_window=sliding)
    return np.asarray(C.toarray())


def check_case(case, ctx, single_cache=None):
    trajs, lag, sliding, mode = case['trajs'], case['lag'], case['sliding'], case['mns']
    trajs = [tuple(t) for t in trajs]
    obs = max(max(t) for t in trajs) + 1
    mns = {'none': None, 'obs': obs, 'obs+2': obs + 2}[mode]
    n = obs if mns is None else mns
    want = oracle(trajs, lag, sliding, n)
    key = (tuple(trajs), lag, sliding, mode)
    ctx.state(key, nontrivial=bool(want.sum() > 0))
    if any(len(t) <= lag for t in trajs):
        ctx.guard('short_traj_lt_lag')
    if not sliding and not np.array_equal(want, oracle(trajs, lag, True, n)):
        ctx.guard('nonsliding_differs')
    if len(set(map(len, trajs))) > 1:
        ctx.guard('padded_rows')
    elif len(trajs) > 1:
        ctx.guard('equal_length_rows')
    total = sum(max(0, len(t) - lag) for t in trajs)
    for enc in case.get('encs', ENCS):
        ctx.ev()
        c = dict(case, encs=[enc])
        try:
            got = call(trajs, lag, sliding, mns, enc)
        except Exception as e:
            ctx.violation('counts:raises:%s:%s' % (enc, type(e).__name__), c,
                          'assigns_to_counts raised %r on %r' % (e, case))
            continue
        if got.shape != (n, n):
            ctx.violation('counts:shape:%s' % enc, c, 'shape %s != %s' % (got.shape, (n, n)))
            continue
        if not np.array_equal(got, want):
            kind = 'sliding' if sliding else 'strided'
            ctx.violation('counts:value:%s:%s' % (kind, enc), c,
                          'case %r\nimpl:\n%s\noracle:\n%s' % (case, got, want))
            continue
        if sliding and got.sum() != total:
            ctx.violation('counts:total', c, 'total %s != %s' % (got.sum(), total))
    # additivity over every split into (first k) + (rest), fixed n_states, via the implementation
    if len(trajs) > 1 and mns is not None:
        ctx.ev()
        try:
            whole = call(trajs, lag, sliding, mns, 'ragged')
            parts = sum(call([t], lag, sliding, mns, 'ragged') for t in trajs)
            if not np.array_equal(whole, parts):
                ctx.violation('counts:additivity', dict(case, encs=['ragged']),
                              'C(A u B) != C(A)+C(B) for %r' % (case,))
        except Exception as e:
            pass  # already reported above


def run_shard(sh, ctx):
    kind, maxlen, i = sh
    S = seqs(maxlen)
    lags = range(1, maxlen + 2)
    if kind == 'singles':
        sets = [[s] for s in S]
    elif kind == 'pairs':
        sets = [[S[i], s] for s in S]
    else:
        sets = [[S[i], s, u] for s in S for u in S]
    first = True
    for trajs in sets:
        for lag in lags:
            for sliding in (True, False):
                for mode in ('none', 'obs', 'obs+2'):
                    case = {'trajs': trajs, 'lag': lag, 'sliding': sliding, 'mns': mode}
                    if first and i % 40 == 0:
                        ctx.sample(case)
                        first = False
                    check_case(case, ctx)


def replay(case, ctx):
    check_case(case, ctx)
