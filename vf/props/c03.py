"""C03 - transition counts equal the exact number of lagged state pairs.

E1 small-scope enumeration: every ordered set of <=2 (quick) / <=3 (thorough)
trajectories, each any state sequence of length 1..4 (quick) / 1..5 (thorough;
triples use length <=3) over {0,1,2}; every lag 1..L+1 (beyond every length);
sliding on/off; max_n_states in {None, observed, observed+2}; four encodings
(RaggedArray from rows, RaggedArray from flat+lengths, -1 padded rectangle, wider int32 rectangle).
A 1-D object array of rows is *rejected* by the API (DataInvalid) and is therefore not an encoding.  Oracle: double loop.
"""
import itertools

import numpy as np

ID = 'C03'
RULE = ('all ordered sets of <=2 (T: <=3) trajectories over states {0,1,2} with lengths 1..4 '
        '(T: 1..5) x lag 1..5 (T: 1..6) x sliding x max_n_states{None,obs,obs+2} x 4 encodings; '
        'plus narrow storage types (int8/uint8/int16) with state ids near their limits and lag given as int/np.int64/np.int32/np.uint8/np.uint64; '
        'large sets of 255..1025 short trajectories (counts straddling powers of two) in both orders and split at every power of two; '
        'concentrated counts: N copies of one trajectory with N x (length-lag) straddling 2^8 and 2^16 (N up to 70000, length up to 70000), whole and split in halves; '
        'held results: the raw matrices returned by a sequence of calls (lag scan, subsets, repeated call, MSM fits) are all '
        'read only after the last call; state = (trajectory set, lag, sliding, n_states); non-trivial = count matrix with >=1 '
        'counted pair; oracle = double loop over (t,t+lag) inside each trajectory')
ASSUMPTIONS = ['state alphabet {0,1,2} and lengths <=5 are representative (small-scope hypothesis)',
               '-1 appears only as trailing padding (the only use the property describes)']
GUARDS = {'many_trajectories': 50, 'concentrated_counts': 80, 'held_results': 200, 'narrow_dtype': 100, 'short_traj_lt_lag': 1000, 'nonsliding_differs': 1000, 'padded_rows': 1000,
          'equal_length_rows': 1000}


def seqs(maxlen, nst=3):
    out = []
    for L in range(1, maxlen + 1):
        out.extend(itertools.product(range(nst), repeat=L))
    return out


def shards(tier, seed):
    if tier == 'quick':
        S = seqs(4)
        sh = [('pairs', 4, i) for i in range(len(S))] + [('singles', 4, 0)] + [('wide', 0, 0)]
        sh += [('many', 0, i) for i in range(4)] + [('held', 4, i) for i in range(4)] + [('conc', 0, 0)]
    else:
        S5 = seqs(5)
        sh = [('pairs', 5, i) for i in range(len(S5))] + [('singles', 5, 0)]
        S3 = seqs(3)
        sh += [('triples', 3, i) for i in range(len(S3))] + [('wide', 0, 0)]
        sh += [('many', 0, i) for i in range(4)] + [('held', 5, i) for i in range(16)] + [('conc', 0, 0)]
    return sh


def oracle(trajs, lag, sliding, n):
    C = np.zeros((n, n), dtype=np.int64)
    for tr in trajs:
        for t in range(len(tr)):
            if t + lag < len(tr) and (sliding or t % lag == 0):
                C[tr[t], tr[t + lag]] += 1
    return C


def encode(trajs, enc):
    from enspara import ra
    if enc == 'ragged':
        return ra.RaggedArray([list(t) for t in trajs])
    if enc == 'padded':
        L = max(len(t) for t in trajs)
        a = -np.ones((len(trajs), L), dtype=int)
        for i, t in enumerate(trajs):
            a[i, :len(t)] = t
        return a
    if enc == 'padded_wide':   # one extra all-padding column
        L = max(len(t) for t in trajs) + 1
        a = -np.ones((len(trajs), L), dtype=np.int32)
        for i, t in enumerate(trajs):
            a[i, :len(t)] = t
        return a
    if enc == 'ragged_flat':
        return ra.RaggedArray(array=np.concatenate([np.array(t, dtype=int) for t in trajs]),
                              lengths=[len(t) for t in trajs])
    raise ValueError(enc)


ENCS = ('ragged', 'padded', 'padded_wide', 'ragged_flat')


def call(trajs, lag, sliding, mns, enc):
    from enspara.msm.transition_matrices import assigns_to_counts
    a = encode(trajs, enc)
    C = assigns_to_counts(a, lag_time=lag, max_n_states=mns, sliding_window=sliding)
    return np.asarray(C.toarray())


def check_case(case, ctx, single_cache=None):
    trajs, lag, sliding, mode = case['trajs'], case['lag'], case['sliding'], case['mns']
    trajs = [tuple(t) for t in trajs]
    obs = max(max(t) for t in trajs) + 1
    mns = {'none': None, 'obs': obs, 'obs+2': obs + 2}[mode]
    n = obs if mns is None else mns
    want = oracle(trajs, lag, sliding, n)
    key = (tuple(trajs), lag, sliding, mode)
    ctx.state(key, nontrivial=bool(want.sum() > 0))
    if any(len(t) <= lag for t in trajs):
        ctx.guard('short_traj_lt_lag')
    if not sliding and not np.array_equal(want, oracle(trajs, lag, True, n)):
        ctx.guard('nonsliding_differs')
    if len(set(map(len, trajs))) > 1:
        ctx.guard('padded_rows')
    elif len(trajs) > 1:
        ctx.guard('equal_length_rows')
    total = sum(max(0, len(t) - lag) for t in trajs)
    for enc in case.get('encs', ENCS):
        ctx.ev()
        c = dict(case, encs=[enc])
        try:
            got = call(trajs, lag, sliding, mns, enc)
        except Exception as e:
            ctx.violation('counts:raises:%s:%s' % (enc, type(e).__name__), c,
                          'assigns_to_counts raised %r on %r' % (e, case))
            continue
        if got.shape != (n, n):
            ctx.violation('counts:shape:%s' % enc, c, 'shape %s != %s' % (got.shape, (n, n)))
            continue
        if not np.array_equal(got, want):
            kind = 'sliding' if sliding else 'strided'
            ctx.violation('counts:value:%s:%s' % (kind, enc), c,
                          'case %r\nimpl:\n%s\noracle:\n%s' % (case, got, want))
            continue
        if sliding and got.sum() != total:
            ctx.violation('counts:total', c, 'total %s != %s' % (got.sum(), total))
    # additivity over every split into (first k) + (rest), fixed n_states, via the implementation
    if len(trajs) > 1 and mns is not None:
        ctx.ev()
        try:
            whole = call(trajs, lag, sliding, mns, 'ragged')
            parts = sum(call([t], lag, sliding, mns, 'ragged') for t in trajs)
            if not np.array_equal(whole, parts):
                ctx.violation('counts:additivity', dict(case, encs=['ragged']),
                              'C(A u B) != C(A)+C(B) for %r' % (case,))
        except Exception as e:
            pass  # already reported above


def check_wide(case, ctx):
    """narrow integer storage types with state ids near their limits, lag given as various integer types"""
    from enspara.msm.transition_matrices import assigns_to_counts
    from enspara import ra
    trajs, lag, sliding, dt, lagtype, enc = case['trajs'], case['lag'], case['sliding'], case['dtype'], case['lagtype'], case['enc']
    ctx.ev()
    ctx.guard('narrow_dtype')
    n = max(max(t) for t in trajs) + 1
    ctx.state(('wide', tuple(map(tuple, trajs)), lag, sliding, dt, lagtype, enc, case['mns']), nontrivial=True)
    want = {}
    for tr in trajs:
        for t in range(len(tr)):
            if t + lag < len(tr) and (sliding or t % lag == 0):
                want[(tr[t], tr[t + lag])] = want.get((tr[t], tr[t + lag]), 0) + 1
    if enc == 'ragged':
        a = ra.RaggedArray([np.array(t, dtype=dt) for t in trajs])
    else:
        L = max(len(t) for t in trajs)
        a = -np.ones((len(trajs), L), dtype=dt) if np.dtype(dt).kind == 'i' else None
        if a is None:
            return
        for i, t in enumerate(trajs):
            a[i, :len(t)] = t
    lagv = {'int': int(lag), 'int64': np.int64(lag), 'int32': np.int32(lag), 'uint8': np.uint8(lag), 'uint64': np.uint64(lag)}[lagtype]
    try:
        C = assigns_to_counts(a, lag_time=lagv, max_n_states=(n if case['mns'] else None), sliding_window=sliding).tocoo()
    except Exception as e:
        ctx.violation('counts:narrow_dtype:raises:%s:%s' % (type(e).__name__, 'lagtype_' + lagtype if lagtype.startswith('u') else dt), case,
                      'assigns_to_counts raised %r on %r' % (e, case))
        return
    got = {}
    for i, j, v in zip(C.row.tolist(), C.col.tolist(), C.data.tolist()):
        if v:
            got[(i, j)] = got.get((i, j), 0) + v
    if C.shape != (n, n) or got != want:
        ctx.violation('counts:narrow_dtype:value:%s' % dt, case, 'shape %s entries %r, expected (%d,%d) %r (%r)' % (C.shape, got, n, n, want, case))


MANY = (255, 256, 257, 300, 511, 512, 513, 700, 1024, 1025)


def many_set(N, rev):
    S = seqs(3)
    tr = [list(S[(k * 7 + 3) % len(S)]) + ([k % 3] if k % 5 == 0 else []) for k in range(N)]
    return tr[::-1] if rev else tr


def check_many(case, ctx):
    """large numbers of trajectories: totals, entries, order independence, additivity over a split"""
    from enspara.msm.transition_matrices import assigns_to_counts
    from enspara import ra
    N, rev, lag, sliding, enc = case['N'], case['rev'], case['lag'], case['sliding'], case['enc']
    ctx.ev()
    ctx.guard('many_trajectories')
    trajs = many_set(N, rev)
    ctx.state(('many', N, rev, lag, sliding, enc), nontrivial=True)
    want = oracle(trajs, lag, sliding, 3)
    def run(ts):
        if enc == 'ragged':
            a = ra.RaggedArray([list(t) for t in ts])
        else:
            L = max(len(t) for t in ts)
            a = -np.ones((len(ts), L), dtype=int)
            for i, t in enumerate(ts):
                a[i, :len(t)] = t
        return np.asarray(assigns_to_counts(a, lag_time=lag, max_n_states=3, sliding_window=sliding).toarray())
    try:
        got = run(trajs)
        if not np.array_equal(got, want):
            ctx.violation('counts:many:value', case, '%d trajectories: total %d, oracle total %d (lag %d sliding %r)' % (
                N, got.sum(), want.sum(), lag, sliding))
            return
        for cut in (1, 128, 256, 512, N - 1):
            if 0 < cut < N:
                ctx.ev()
                parts = run(trajs[:cut]) + run(trajs[cut:])
                if not np.array_equal(parts, want):
                    ctx.violation('counts:many:additivity', case, 'split at %d of %d trajectories: parts sum to %d, whole %d' % (
                        cut, N, parts.sum(), want.sum()))
                    return
    except Exception as e:
        ctx.violation('counts:many:raises:%s' % type(e).__name__, case, 'raised %r on %r' % (e, case))


CONC = [(255, [0, 0, 1]), (256, [0, 0, 1]), (257, [0, 0, 1]), (1000, [1, 1]), (65535, [0, 0]), (65536, [0, 0]), (65537, [2, 2]),
        (300, [0] * 300), (257, [1] * 257), (2, [0] * 70000), (70000, [0, 1])]


def check_conc(case, ctx):
    """one entry of the matrix collects more pairs than any single trajectory is long (N copies of one trajectory): the
    per-entry count must not be held in a type sized by the longest trajectory or by the number of trajectories"""
    from enspara.msm.transition_matrices import assigns_to_counts
    from enspara import ra
    N, tr, lag, sliding, enc = case['N'], case['traj'], case['lag'], case['sliding'], case['enc']
    ctx.ev()
    ctx.guard('concentrated_counts')
    ctx.state(('conc', N, len(tr), tuple(tr[:3]), lag, sliding, enc), nontrivial=True)
    want = oracle([tr], lag, sliding, 3) * N

    def run(n):
        if enc == 'padded':
            a = np.tile(np.array(tr, dtype=int), (n, 1))
        else:
            a = ra.RaggedArray(array=np.tile(np.array(tr, dtype=int), n), lengths=[len(tr)] * n)
        return np.asarray(assigns_to_counts(a, lag_time=lag, max_n_states=3, sliding_window=sliding).toarray()).astype(np.int64)
    try:
        got = run(N)
        if not np.array_equal(got, want):
            ctx.violation('counts:concentrated:value', case, '%d copies of a %d-frame trajectory: got %r, exact pair count %r' % (
                N, len(tr), got.tolist(), want.tolist()))
            return
        if N >= 2:
            parts = run(N // 2) + run(N - N // 2)
            if not np.array_equal(parts, want):
                ctx.violation('counts:concentrated:additivity', case, 'halves sum to %r, whole %r' % (parts.tolist(), want.tolist()))
    except Exception as e:
        ctx.violation('counts:concentrated:raises:%s' % type(e).__name__, case, 'raised %r on N=%d len=%d' % (e, N, len(tr)))


def check_held(case, ctx):
    """a sequence of calls whose RAW results are all read only after the last call (a result must not change because
    the routine is called again)"""
    from enspara.msm.transition_matrices import assigns_to_counts
    from enspara.msm import MSM, builders
    from enspara import ra
    A, B = [tuple(t) for t in case['trajs']]
    ctx.ev()
    ctx.guard('held_results')
    ctx.state(('held', A, B, case['order']), nontrivial=True)
    n = 3
    plan = [([A, B], 1, True), ([A, B], 2, True), ([A, B], 3, False), ([A], 1, True), ([B], 1, True), ([B, A], 1, True), ([A, B], 1, True),
            ([A, B], 2, False), ([A + B], 1, True)]
    if case['order'] == 'rev':
        plan = plan[::-1]
    held = []
    try:
        for ts, lag, sl in plan:
            a = ra.RaggedArray([list(t) for t in ts])
            held.append((ts, lag, sl, assigns_to_counts(a, lag_time=lag, max_n_states=n, sliding_window=sl)))
        fits = []
        for ts, lag in (([A, B], 1), ([B], 1), ([A, B], 2)):
            if sum(max(0, len(t) - lag) for t in ts) == 0:
                continue
            m = MSM(lag_time=lag, method=builders.normalize, trim=False, max_n_states=n)
            m.fit(ra.RaggedArray([list(t) for t in ts]))
            fits.append((ts, lag, m))
    except Exception as e:
        ctx.violation('counts:held:raises:%s' % type(e).__name__, case, 'raised %r on %r' % (e, case))
        return
    for k, (ts, lag, sl, C) in enumerate(held):
        got = np.asarray(C.toarray())
        want = oracle(ts, lag, sl, n)
        if got.shape != want.shape or not np.array_equal(got, want):
            ctx.violation('counts:held:changed_after_later_call', case,
                          'result #%d (trajs %r lag %d sliding %r) read after the later calls is\n%s\nbut its own pair counts are\n%s' % (
                              k, ts, lag, sl, got, want))
            return
    for ts, lag, m in fits:
        got = np.asarray(m.tcounts_.toarray() if hasattr(m.tcounts_, 'toarray') else m.tcounts_)
        want = oracle(ts, lag, True, n)
        if got.shape != want.shape or not np.array_equal(got, want):
            ctx.violation('counts:held:msm_tcounts_changed', case, 'tcounts_ of an earlier fit (trajs %r lag %d) is\n%s want\n%s' % (ts, lag, got, want))
            return


def wide_cases():
    out = []
    fam = {'int8': (11, 12, 100, 127), 'uint8': (15, 16, 200, 255), 'int16': (181, 182, 600, 1000), 'int32': (1000,), 'int64': (1000,)}
    for dt, tops in fam.items():
        for top in tops:
            for trajs in ([[0, top, 1, top, top, 0]], [[top, 0, top], [1, top]], [[top], [0, 1, top, 1, 0, top, top]]):
                for lag in (1, 2):
                    for sliding in (True, False):
                        for enc in ('ragged', 'padded'):
                            for mns in (True, False):
                                out.append({'kind': 'wide', 'trajs': trajs, 'lag': lag, 'sliding': sliding, 'dtype': dt,
                                            'lagtype': 'int', 'enc': enc, 'mns': mns})
    for lagtype in ('int64', 'int32', 'uint8', 'uint64'):
        for lag in (1, 2, 3):
            for sliding in (True, False):
                out.append({'kind': 'wide', 'trajs': [[0, 1, 2, 1, 0, 2, 2], [2, 1]], 'lag': lag, 'sliding': sliding, 'dtype': 'int64',
                            'lagtype': lagtype, 'enc': 'ragged', 'mns': False})
    return out


def run_shard(sh, ctx):
    if sh[0] == 'wide':
        for c in wide_cases():
            check_wide(c, ctx)
        ctx.sample(c)
        return
    if sh[0] == 'many':
        for k, N in enumerate(MANY):
            for rev in (False, True):
                for lag in (1, 2):
                    for sliding in (True, False):
                        for enc in ('ragged', 'padded'):
                            if (k + lag + rev) % 4 == sh[2]:
                                c = {'kind': 'many', 'N': N, 'rev': rev, 'lag': lag, 'sliding': sliding, 'enc': enc}
                                check_many(c, ctx)
        ctx.sample(c)
        return
    if sh[0] == 'conc':
        for N, tr in CONC:
            for lag in (1, 2):
                for sliding in (True, False):
                    for enc in ('padded', 'ragged_flat'):
                        c = {'kind': 'conc', 'N': N, 'traj': tr, 'lag': lag, 'sliding': sliding, 'enc': enc}
                        check_conc(c, ctx)
        ctx.sample(dict(c, traj=c['traj'][:4]))
        return
    if sh[0] == 'held':
        S = seqs(sh[1])
        S = [t for t in S if len(t) >= 2]
        nsh = 4 if sh[1] == 4 else 16
        k = 0
        for a in S[::3]:
            for b in S[1::5]:
                k += 1
                if k % nsh == sh[2]:
                    for order in ('fwd', 'rev'):
                        c = {'kind': 'held', 'trajs': [list(a), list(b)], 'order': order}
                        check_held(c, ctx)
        ctx.sample(c)
        return
    kind, maxlen, i = sh
    S = seqs(maxlen)
    lags = range(1, maxlen + 2)
    if kind == 'singles':
        sets = [[s] for s in S]
    elif kind == 'pairs':
        sets = [[S[i], s] for s in S]
    else:
        sets = [[S[i], s, u] for s in S for u in S]
    first = True
    for trajs in sets:
        for lag in lags:
            for sliding in (True, False):
                for mode in ('none', 'obs', 'obs+2'):
                    case = {'trajs': trajs, 'lag': lag, 'sliding': sliding, 'mns': mode}
                    if first and i % 40 == 0:
                        ctx.sample(case)
                        first = False
                    check_case(case, ctx)


def replay(case, ctx):
    if case.get('kind') == 'many':
        check_many(case, ctx)
    elif case.get('kind') == 'conc':
        check_conc(case, ctx)
    elif case.get('kind') == 'held':
        check_held(case, ctx)
    elif case.get('kind') == 'wide':
        check_wide(case, ctx)
    else:
        check_case(case, ctx)
