"""C14 - MPI-striped clustering and reductions equal their serial counterparts.

enspara's REAL-MPI branch is executed against a simulated communicator (vf.simmpi): every rank is a thread
running the real function on its stripe; every collective is a scheduling point.
E1 over configurations (world size x trajectory length vectors x tie-free data x algorithm/ops) and
E2 (choice-prefix DFS, deviation-bounded) over the arrival order of ranks at every collective.
"""
import itertools
import os
import shutil
import tempfile

import numpy as np

from .. import explore
from ..models import clusterref as cr

ID = 'C14'
MPI = 'sim'
ENGINE = 'E2-choice-prefix-dfs'
TECHNIQUE = ('exhaustive enumeration of world sizes x stripings x tie-free data on the real-MPI code path driven by a '
             'simulated communicator, with choice-prefix DFS over rank arrival orders at every collective (deviation-bounded)')
RULE = ('world size R=1..4 x all trajectory length vectors with R<=#traj<=4 and lengths 1..3 (Q: #traj<=3 for R>=3) x 3 tie-free '
        'data arrangements (Golomb-ruler values: all pairwise distances distinct) x {kcenters k in 1..3 and radius stop, hybrid '
        'sweeps 0..2 x seeds, warm-start kmedoids via flat and (traj,frame) center ids, ops: assemble_striped_array/'
        'ragged_array, striped max/mean, randind for every RNG value, distribute_frame for every (owner,index), '
        'convert_local_indices for every pair (ops also on all-negative and mixed-sign data), load_h5/npy_as_striped}; arrival orders: default for every configuration, all '
        'executions with <=1 (T: <=2) deviations on a reduced set with R<=3; state=(configuration, operation, schedule); '
        'non-trivial = R>=2 with unequal stripes')
ASSUMPTIONS = ['the simulated communicator stands in for MPI: rendezvous collectives matched by per-rank call index, payload '
               'copied at post time; interconnect/memory-model effects are out of reach',
               'serial equivalence is asserted on tie-free data only, as the statement says',
               'ranks owning no trajectory are excluded (load_trajectory_as_striped itself rejects that)',
               'each rank seeds its own RandomState(seed) as separate processes would']
GUARDS = {'all_negative_data': 50, 'unequal_stripes': 200, 'owner_changes': 200, 'nondefault_order': 100, 'hybrid_checked': 100, 'rank_len1': 100,
          'rect_stripe_in_ragged_whole': 20, 'randind_values': 100, 'file_loads': 20, 'warm_kmedoids': 20, 'hot_start': 200,
          'hot_start_rank_without_init_frame': 50, 'empty_rank': 40}
RULER = [0, 2, 6, 24, 29, 40, 43, 55, 68, 75, 76, 85]


def length_vectors(tier):
    out = []
    for R in (1, 2, 3, 4):
        for nt in range(R, 5):
            if tier == 'quick' and ((R >= 3 and nt > 3 and R != 4) or (R == 1 and nt > 2)):
                continue
            for L in itertools.product((1, 2, 3), repeat=nt):
                if tier == 'quick' and nt == 4 and sum(L) % 3:
                    continue
                out.append((R, list(L)))
    return out


def arrangements(n):
    base = RULER[:n]
    a1 = list(base)
    a2 = list(base[::-1])
    a3 = list(base[1::2] + base[0::2])
    return [a1, a2, a3]


def shards(tier, seed):
    cfgs = length_vectors(tier)
    n = 48 if tier == 'quick' else 192
    return [('cfg', tier, i, n) for i in range(n)] + [('io', tier, i, 4) for i in range(4)]


def stripe(lengths, R, rank):
    starts = np.concatenate([[0], np.cumsum(lengths)[:-1]]).astype(int)
    idx = [i for t in range(rank, len(lengths), R) for i in range(starts[t], starts[t] + lengths[t])]
    return np.array(idx, dtype=int)


def explore_world(R, fn, bound, ctx, key, judge):
    """run fn on R ranks under every arrival order with <= bound deviations; judge(world) per execution"""
    from .. import simmpi
    outcomes = {}

    def run(prefix):
        # the world has its own deterministic horizon (max scheduling steps => Deadlock('livelock'))
        w = simmpi.run_world(R, fn, prefix)
        return list(w.points), w

    def on_exec(choices, pts, w):
        ctx.ev()
        ctx.extra['schedules'] += 1
        nd = any(choices)
        ctx.state(key + (choices,), nontrivial=nd or R >= 2)
        if nd:
            ctx.guard('nondefault_order')
        sig = judge(w, list(choices))
        outcomes[sig] = choices

    explore.dfs_choices(run, bound, on_exec)
    return outcomes


def freeze(x):
    if isinstance(x, np.ndarray):
        return ('nd', x.shape, x.tobytes())
    if isinstance(x, (list, tuple)):
        return tuple(freeze(v) for v in x)
    if isinstance(x, dict):
        return tuple(sorted((k, freeze(v)) for k, v in x.items()))
    if isinstance(x, (np.integer,)):
        return int(x)
    if isinstance(x, (np.floating,)):
        return float(x)
    return x


def check_cluster(case, ctx, bound):
    from enspara.cluster import kcenters as kc, hybrid as hy, kmedoids as km
    from enspara.mpi import ops
    R, lengths, vals, algo = case['R'], case['lengths'], case['data'], case['algo']
    k, iters, seed, metric = case.get('k'), case.get('iters', 0), case.get('seed', 0), case.get('metric', 'euclidean')
    n = sum(lengths)
    X = np.array(vals[:n], dtype=float).reshape(-1, 1)
    D = cr.dist_matrix(X, metric)
    L = np.array(lengths)
    if algo == 'kcenters_hot':
        # warm start from frames of the data (serial definition: the same call on the concatenation)
        serial = kc.kcenters(X, metric, n_clusters=k, init_centers=X[case['init']].copy())
    else:
        serial = kc.kcenters(X, metric, n_clusters=k) if algo != 'kcenters_r' else kc.kcenters(X, metric, dist_cutoff=case['r'])
    s_ci = [int(c) for c in serial.center_indices]
    stripes = [stripe(lengths, R, r) for r in range(R)]
    if len({len(s) for s in stripes}) > 1:
        ctx.guard('unequal_stripes')
    if any(len(s) == 1 for s in stripes):
        ctx.guard('rank_len1')
    owners = [[r for r in range(R) if c in stripes[r]][0] for c in s_ci]
    if len(set(owners)) > 1:
        ctx.guard('owner_changes')
    for r in range(R):
        loc = L[r::R]
        if len(loc) > 1 and len(set(loc.tolist())) == 1 and len(set(lengths)) > 1:
            ctx.guard('rect_stripe_in_ragged_whole')

    def fn(rank):
        Xl = X[stripes[rank]].copy()
        if algo in ('kcenters', 'kcenters_r'):
            if algo == 'kcenters':
                res = kc.kcenters(Xl, metric, n_clusters=k, mpi_mode=True)
            else:
                res = kc.kcenters(Xl, metric, dist_cutoff=case['r'], mpi_mode=True)
        elif algo == 'kcenters_hot':
            res = kc.kcenters(Xl, metric, n_clusters=k, init_centers=X[case['init']].copy(), mpi_mode=True)
        elif algo == 'hybrid':
            res = hy.hybrid(Xl, metric, n_iters=iters, n_clusters=k, random_state=seed, mpi_mode=True)
        elif algo in ('kmedoids_flat', 'kmedoids_pairs'):
            lab, dist = cr.nearest_state(D, s_ci)
            inds = list(s_ci) if algo == 'kmedoids_flat' else [_flat_to_pair(i, lengths) for i in s_ci]
            res = km.kmedoids(Xl, metric, n_iters=iters, assignments=lab[stripes[rank]].copy(),
                              distances=dist[stripes[rank]].copy(), cluster_center_inds=inds,
                              X_lengths=list(lengths), random_state=seed)
        d = ops.assemble_striped_ragged_array(np.asarray(res.distances), L)
        a = ops.assemble_striped_ragged_array(np.asarray(res.assignments), L)
        c = ops.convert_local_indices(res.center_indices, L)
        return {'centers': [int(x) for x in c], 'labels': np.asarray(a).astype(int), 'distances': np.asarray(d, float),
                'coords': [np.asarray(x).ravel().tolist() for x in res.centers],
                'local_centers': [(int(o), int(i)) for o, i in res.center_indices]}

    def judge(w, sched):
        c = dict(case, schedule=sched)
        if w.error is not None:
            kind = type(w.error).__name__
            where = _where(w.error)
            ctx.violation('%s:%s:%s' % (algo, kind, where), c, '%s on %r: %r' % (kind, c, w.error))
            return ('error', kind)
        rets = w.ret
        f0 = freeze({k_: v for k_, v in rets[0].items() if k_ != 'local_centers'})
        for r in range(1, R):
            if freeze({k_: v for k_, v in rets[r].items() if k_ != 'local_centers'}) != f0:
                ctx.violation('%s:ranks_disagree' % algo, c, 'rank 0 %r vs rank %d %r' % (rets[0], r, rets[r]))
                return ('disagree',)
        got = rets[0]

        class Res:
            pass
        res = Res()
        res.center_indices, res.assignments, res.distances = got['centers'], got['labels'], got['distances']
        res.centers = [np.array(x) for x in got['coords']]
        if algo in ('kcenters', 'kcenters_r', 'kcenters_hot'):
            if algo == 'kcenters_hot':
                ctx.guard('hot_start')
                if len({[r_ for r_ in range(R) if g in stripes[r_]][0] for g in case['init']}) < min(R, len(case['init'])):
                    ctx.guard('hot_start_rank_without_init_frame')
            if got['centers'] != s_ci or not np.array_equal(got['labels'], serial.assignments) or \
                    not np.allclose(got['distances'], serial.distances, rtol=0, atol=1e-12):
                ctx.violation('%s:differs_from_serial' % algo, c,
                              'distributed centers %r labels %r dist %r; serial %r %r %r (%r)' % (
                                  got['centers'], got['labels'].tolist(), got['distances'].tolist(), s_ci,
                                  serial.assignments.tolist(), serial.distances.tolist(), c))
        else:
            ctx.guard('hybrid_checked' if algo == 'hybrid' else 'warm_kmedoids')
            for clause, msg in cr.check_result(X, D, res, want_k=len(s_ci)):
                ctx.violation('%s:invariant:%s' % (algo, clause), c, '%s (%r)' % (msg, c))
            if cr.cost(got['distances']) > cr.cost(serial.distances) * (1 + 1e-12) + 1e-15:
                ctx.violation('%s:cost_worse_than_kcenters' % algo, c, 'cost %g > k-centers cost %g' % (
                    cr.cost(got['distances']), cr.cost(serial.distances)))
        # local (rank, index) pairs must address the same frames as the global ids
        for (o, i), g in zip(got['local_centers'], got['centers']):
            if not (0 <= o < R and 0 <= i < len(stripes[o]) and stripes[o][i] == g):
                ctx.violation('%s:local_to_global' % algo, c, '(rank %d, local %d) -> global %d; stripes %r' % (o, i, g, [s.tolist() for s in stripes]))
                break
        return ('ok', f0)

    key = ('cluster', R, tuple(lengths), tuple(vals[:n]), algo, k, iters, seed, case.get('r'), tuple(case.get('init', ())))
    outs = explore_world(R, fn, bound, ctx, key, judge)
    if len(outs) > 1:
        ctx.violation('%s:schedule_dependent' % algo, case, '%d distinct outcomes over arrival orders' % len(outs))


def _where(err):
    import traceback
    tb = traceback.extract_tb(err.__traceback__) if getattr(err, '__traceback__', None) else []
    for fr in reversed(tb):
        if '/enspara/' in fr.filename:
            return '%s:%s' % (os.path.basename(fr.filename), fr.name)
    return 'sim'


def _flat_to_pair(idx, lengths):
    t = 0
    for Ln in lengths:
        if idx < Ln:
            return [t, idx]
        idx -= Ln
        t += 1
    raise IndexError


def check_ops(case, ctx, bound):
    from enspara.mpi import ops
    from enspara import mpi
    R, lengths, vals = case['R'], case['lengths'], case['data']
    n = sum(lengths)
    X = np.array(vals[:n], dtype=float).reshape(-1, 1)
    L = np.array(lengths)
    stripes = [stripe(lengths, R, r) for r in range(R)]
    flat = np.array(vals[:n], dtype=float)

    class FixedRNG(np.random.RandomState):
        def __init__(self, g):
            super().__init__(0)
            self.g = g

        def randint(self, *a, **kw):
            return self.g

    def fn(rank):
        out = {}
        loc = flat[stripes[rank]]
        out['lengths'] = np.asarray(ops.assemble_striped_array(L[rank::R].copy())).tolist()
        out['max'] = float(ops.striped_array_max(loc))
        out['mean'] = float(ops.striped_array_mean(loc))
        loc2 = np.stack([loc, loc * 2 + 1], axis=1)          # the same stripe as a 2-d (frames x 2) array
        out['max2d'] = float(ops.striped_array_max(loc2))
        out['mean2d'] = float(ops.striped_array_mean(loc2))
        out['ragged'] = np.asarray(ops.assemble_striped_ragged_array(loc, L)).tolist()
        out['ragged_int'] = np.asarray(ops.assemble_striped_ragged_array(stripes[rank].astype(int), L)).tolist()
        out['randind'] = [tuple(int(v) for v in ops.randind(loc, FixedRNG(g))) for g in range(n)]
        out['frames'] = [np.asarray(ops.distribute_frame(X[stripes[rank]], i, o)).ravel().tolist()
                         for o in range(R) for i in range(len(stripes[o]))]
        out['l2g'] = [int(v) for v in ops.convert_local_indices(
            [(o, i) for o in range(R) for i in range(len(stripes[o]))], L)]
        out['size'] = (mpi.size(), mpi.rank())
        return out

    def judge(w, sched):
        c = dict(case, schedule=sched)
        if w.error is not None:
            kind = type(w.error).__name__
            ctx.violation('ops:%s:%s' % (kind, _where(w.error)), c, '%s on %r: %r' % (kind, c, w.error))
            return ('error', kind)
        for r in range(R):
            o = w.ret[r]
            if o['size'] != (R, r):
                ctx.violation('ops:size_rank', c, 'rank %d sees %r' % (r, o['size']))
            if o['lengths'] != list(lengths):
                ctx.violation('ops:assemble_striped_array', c, 'rank %d: %r != %r' % (r, o['lengths'], lengths))
            if o['max'] != flat.max():
                ctx.violation('ops:striped_array_max', c, 'rank %d: %r != %r' % (r, o['max'], flat.max()))
            if abs(o['mean'] - flat.mean()) > 1e-12:
                ctx.violation('ops:striped_array_mean', c, 'rank %d: %r != %r' % (r, o['mean'], flat.mean()))
            flat2 = np.stack([flat, flat * 2 + 1], axis=1)
            if o['max2d'] != flat2.max():
                ctx.violation('ops:striped_array_max:2d', c, 'rank %d: %r != %r' % (r, o['max2d'], flat2.max()))
            if abs(o['mean2d'] - flat2.mean()) > 1e-12 * max(1.0, abs(flat2.mean())):
                ctx.violation('ops:striped_array_mean:2d', c, 'rank %d: mean of a (frames x 2) striped array %r != np.mean of the whole %r' % (r, o['mean2d'], flat2.mean()))
            if o['ragged'] != flat.tolist():
                ctx.violation('ops:assemble_striped_ragged_array', c, 'rank %d: %r != %r' % (r, o['ragged'], flat.tolist()))
            if o['ragged_int'] != list(range(n)):
                ctx.violation('ops:assemble_striped_ragged_array:int', c, 'rank %d: %r' % (r, o['ragged_int']))
            want_frames = [[flat[stripes[oo][i]]] for oo in range(R) for i in range(len(stripes[oo]))]
            if o['frames'] != want_frames:
                ctx.violation('ops:distribute_frame', c, 'rank %d: %r != %r' % (r, o['frames'], want_frames))
            want_l2g = [int(stripes[oo][i]) for oo in range(R) for i in range(len(stripes[oo]))]
            if o['l2g'] != want_l2g:
                ctx.violation('ops:convert_local_indices', c, 'rank %d: %r != %r' % (r, o['l2g'], want_l2g))
            ri = o['randind']
            ctx.guard('randind_values', len(ri))
            valid = all(0 <= a < R and 0 <= b < len(stripes[a]) for a, b in ri)
            if not valid or len(set(ri)) != n or ri != w.ret[0]['randind']:
                ctx.violation('ops:randind', c, 'rank %d: RNG values 0..%d map to %r (stripes %r)' % (r, n - 1, ri, [len(s) for s in stripes]))
        return ('ok', freeze(w.ret[0]['ragged']))

    key = ('ops', R, tuple(lengths), tuple(vals[:n]))
    if R > len(lengths):
        ctx.guard('empty_rank')
    if max(vals[:n]) < 0:
        ctx.guard('all_negative_data')
    outs = explore_world(R, fn, bound, ctx, key, judge)
    if len(outs) > 1:
        ctx.violation('ops:schedule_dependent', case, '%d distinct outcomes over arrival orders' % len(outs))


def check_io(case, ctx):
    from enspara.mpi import io as mio
    from enspara import ra
    from .. import simmpi
    R, lengths, stride, kind = case['R'], case['lengths'], case['stride'], case['io']
    tmp = tempfile.mkdtemp(prefix='vfc14-')
    try:
        rows = []
        v = 0
        for Ln in lengths:
            rows.append((np.arange(v, v + Ln * 2).reshape(Ln, 2) * 1.5).astype(np.float64))
            v += Ln * 2
        if kind == 'h5':
            fn_ = os.path.join(tmp, 'a.h5')
            ra.save(fn_, ra.RaggedArray([r for r in rows]))
        else:
            files = []
            for i, r in enumerate(rows):
                f = os.path.join(tmp, 'f%d.npy' % i)
                np.save(f, r)
                files.append(f)

        def fn(rank):
            if kind == 'h5':
                gl, loc = mio.load_h5_as_striped(fn_, stride=stride)
            else:
                gl, loc = mio.load_npy_as_striped(files, stride=stride)
            return [int(x) for x in gl], np.asarray(loc)

        w = simmpi.run_world(R, fn)
        ctx.ev()
        ctx.guard('file_loads')
        ctx.state(('io', kind, R, tuple(lengths), stride), nontrivial=R >= 2)
        if w.error is not None:
            ctx.violation('io:%s:%s:%s' % (kind, type(w.error).__name__, _where(w.error)), case, '%r on %r' % (w.error, case))
            return
        for r in range(R):
            gl, loc = w.ret[r]
            want = np.concatenate([rows[t][::stride] for t in range(r, len(rows), R)])
            if loc.shape != want.shape or loc.dtype != want.dtype or not np.array_equal(loc, want):
                ctx.violation('io:%s:local_data' % kind, case, 'rank %d: %r != %r' % (r, loc.tolist(), want.tolist()))
            wl = [len(rows[t][::stride]) for t in range(len(rows))]
            if gl != wl:
                # the lengths must describe the (strided) data that was loaded, as the serial ra.load does
                ctx.violation('io:%s:global_lengths' % kind, case, 'rank %d: %r != %r' % (r, gl, wl))
    finally:
        shutil.rmtree(tmp, ignore_errors=True)


def run_shard(sh, ctx):
    kind, tier, i, nsh = sh
    cfgs = length_vectors(tier)
    if kind == 'cfg':
        for j in range(i, len(cfgs), nsh):
            R, lengths = cfgs[j]
            n = sum(lengths)
            jj = j // nsh
            for ai, vals in enumerate(arrangements(n)):
                deep = (R <= 3 and n <= 6 and (jj + ai) % 3 == 0)
                bound = (1 if tier == 'quick' else 2) if deep else 0
                base = {'R': R, 'lengths': lengths, 'data': vals}
                for k in (1, 2, 3):
                    if k > n:
                        continue
                    check_cluster(dict(base, kind='cluster', algo='kcenters', k=k), ctx, bound if k == 2 else 0)
                if n >= 3:
                    X = np.array(vals[:n], float).reshape(-1, 1)
                    Dm = cr.dist_matrix(X, 'euclidean')
                    r = float(np.sort(Dm[np.triu_indices(n, 1)])[n // 2])
                    check_cluster(dict(base, kind='cluster', algo='kcenters_r', r=r), ctx, 0)
                    # warm starts: every pair of frames as initial centers (quick: pairs containing frame 0 or n-1),
                    # continued to 2 (nothing to add) and 3 centers
                    if ai == 0:
                        for init in itertools.combinations(range(n), 2):
                            if tier == 'quick' and not (init[0] == 0 or init[1] == n - 1):
                                continue
                            for k in (2, 3):
                                check_cluster(dict(base, kind='cluster', algo='kcenters_hot', k=k, init=list(init)), ctx,
                                              bound if (k == 3 and init == (0, n - 1)) else 0)
                    for iters in (0, 1, 2):
                        for seed in ((ctx.seed, ctx.seed + 1) if iters else (ctx.seed,)):
                            check_cluster(dict(base, kind='cluster', algo='hybrid', k=min(3, n - 1), iters=iters, seed=seed),
                                          ctx, bound if (iters == 1 and seed == ctx.seed) else 0)
                    if R >= 2 and ai == 0:
                        for algo in ('kmedoids_pairs', 'kmedoids_flat'):
                            check_cluster(dict(base, kind='cluster', algo=algo, k=2, iters=1, seed=ctx.seed), ctx, 0)
                if ai < 2:
                    check_ops(dict(base, kind='ops'), ctx, bound)
                    # all-negative and mixed-sign data (reductions must not assume non-negative values)
                    check_ops(dict(base, kind='ops', data=[-v - 1 for v in vals]), ctx, 0)
                    if ai == 0:
                        check_ops(dict(base, kind='ops', data=[(v - 30) * (1 if i % 2 else -1) - 0.5 for i, v in enumerate(vals)]), ctx, 0)
            if R == len(lengths) and len(lengths) <= 3:
                # more ranks than trajectories: the surplus ranks hold an empty share of every striped array
                for extra in (1, 2):
                    for ai, vals in enumerate(arrangements(n)[:2]):
                        eb = {'R': R + extra, 'lengths': lengths, 'data': vals, 'kind': 'ops'}
                        check_ops(eb, ctx, (1 if (extra == 1 and ai == 0 and R + extra <= 3) else 0))
                        check_ops(dict(eb, data=[-v - 1 for v in vals]), ctx, 0)
            if j % 37 == 0:
                ctx.sample(dict(base, algo='kcenters|hybrid|kmedoids|ops', deviation_bound=bound))
    else:
        k = 0
        for R, lengths in cfgs:
            k += 1
            if k % nsh != i:
                continue
            for io in ('h5', 'npy'):
                for stride in (1, 2):
                    check_io({'kind': 'io', 'R': R, 'lengths': lengths, 'stride': stride, 'io': io}, ctx)
        ctx.sample({'kind': 'io', 'R': R, 'lengths': lengths})


def replay(case, ctx):
    if case['kind'] == 'cluster':
        check_cluster(case, ctx, 0)
    elif case['kind'] == 'ops':
        check_ops(case, ctx, 0)
    else:
        check_io(case, ctx)
