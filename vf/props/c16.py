"""C16 - MSM estimator == its function pipeline, round-trips through save/load, has a sound spectrum.

E1: (a) every assignment set of C03's quick scope x lag x builder x trim x sliding x max_n_states:
MSM(...).fit(a) vs assigns_to_counts -> trim_disconnected -> builder; (b) save/load round trip;
(c) eigenspectrum / implied_timescales / synthetic_ensemble laws on all small ergodic lattice chains.
"""
import itertools
import os
import shutil
import tempfile

import numpy as np
import scipy.sparse as sp

from ..models import msmref as mr
from .c03 import seqs

ID = 'C16'
RULE = ('(a) ordered sets of <=2 trajectories (len 1..4, 3 states; Q: second trajectory every 5th sequence, T: all) x lag {1,2,3} '
        'x builder {normalize,transpose,mle(every 5th set, trimmed only)} x trim x sliding x max_n_states {None,5}: estimator vs function pipeline; (b) save/load on every 7th '
        'configuration; (c) all irreducible row-stochastic matrices n=3 with rows on the denominator-4 simplex lattice '
        '(T: + n=4 denominator 2) dense+csr: eigenspectrum laws, implied_timescales on assignment sets (lag times also as tuple / uint8..uint64 / int16..int64 arrays; assignments also stored as int8/uint8/int16 with ids up to the maximum of the type), synthetic_ensemble '
        'for n<=5 and all lattice start vectors; synthetic_ensemble over 2..4000 (T: 20000) steps of slowly mixing 2/3/4-state chains with crossing probabilities 1e-2..1e-8 (history = p0 T^k at every step); the sparse >=1000-state (ARPACK) branch of eigenspectrum on a family of '
        'nearly periodic (stay 0.03) and lazy (0.5) reversible walks on bipartite circulant graphs with 1000 and 1100 states x n_eigs {2,4,6}; state=(assignments|matrix, configuration); non-trivial = configuration '
        'where sliding and strided counts differ / chain with complex or negative eigenvalues')
ASSUMPTIONS = ['eigenvalues are compared at 1e-6, widened to 1e-13**(1/m) for a cluster of m reference eigenvalues closer than 1e-3 (defective eigenvalues are ill-conditioned for every solver)',
               'eigenvalues compared as sorted real parts with numpy.linalg.eigvals at 1e-6 (defective eigenvalues move by '
               'sqrt(eps) between solvers); real eigenvalues additionally satisfy sigma_min(T - lambda I) <= 1e-7',
               'models without any counted transition have NaN populations: NaN-aware attribute comparison, the model\'s own == '
               'is only asserted when populations are finite',
               'one-state models: eq_probs_ comes back 0-d from loadtxt; compared after atleast_1d',
               'max_n_states is not part of MSM.config and is not asserted to survive save/load']
GUARDS = {'lag_forms': 4, 'narrow_assignments': 2, 'slow_chain_long_run': 50, 'arpack_branch': 10, 'sliding_differs': 500, 'trim_removed_states': 500, 'roundtrip': 200, 'complex_eigs': 100, 'negative_eigs': 100,
          'pipeline_raises_both': 0, 'imp_times': 100}
NSH = {'quick': 60, 'thorough': 240}


def shards(tier, seed):
    return [('fit', tier, i) for i in range(NSH[tier])] + [('spec', tier, i) for i in range(16)] + \
        [('arpack', tier, i) for i in range(8)] + [('slow', tier, i) for i in range(8)]


def dense(M):
    return mr.to_dense(M)


def nan_equal(a, b, tol=0.0):
    a = np.atleast_1d(np.asarray(dense(a), float))
    b = np.atleast_1d(np.asarray(dense(b), float))
    if a.shape != b.shape:
        return False
    if tol:
        return bool(np.allclose(a, b, rtol=0, atol=tol, equal_nan=True))
    return bool(np.array_equal(a, b, equal_nan=True))


def check_fit(case, ctx):
    from enspara.msm import MSM, builders
    from enspara.msm.transition_matrices import assigns_to_counts, trim_disconnected, TrimMapping
    from enspara import ra
    trajs, lag, bname = case['trajs'], case['lag'], case['builder']
    trim, sliding, mns = case['trim'], case['sliding'], case['mns']
    ctx.ev()
    a = ra.RaggedArray([list(t) for t in trajs])
    key = (tuple(map(tuple, trajs)), lag, bname, trim, sliding, mns)
    builder = getattr(builders, bname)
    # function pipeline
    perr = None
    try:
        C0 = assigns_to_counts(a, lag_time=lag, max_n_states=mns, sliding_window=sliding)
        Cslide = assigns_to_counts(a, lag_time=lag, max_n_states=mns, sliding_window=True)
        differs = not np.array_equal(C0.toarray(), Cslide.toarray())
        if trim:
            mapping, C1 = trim_disconnected(C0)
        else:
            mapping, C1 = TrimMapping(zip(range(C0.shape[0]), range(C0.shape[0]))), C0
        pc, pt, pp = builder(C1)
    except Exception as e:
        perr = e
        differs = False
    ctx.state(key, nontrivial=differs)
    if differs:
        ctx.guard('sliding_differs')
    merr = None
    try:
        m = MSM(lag_time=lag, method=builder, trim=trim, sliding_window=sliding, max_n_states=mns)
        m.fit(a)
    except Exception as e:
        merr = e
    if perr is not None or merr is not None:
        if (perr is None) != (merr is None):
            ctx.violation('fit:exception_mismatch', case, 'pipeline raised %r, estimator raised %r (%r)' % (perr, merr, case))
        else:
            ctx.guard('pipeline_raises_both')
        return
    if trim and C1.shape[0] < C0.shape[0]:
        ctx.guard('trim_removed_states')
    kind = 'sliding' if not sliding else 'other'
    if not nan_equal(m.tcounts_, pc):
        ctx.violation('fit:tcounts:%s' % kind, case, 'estimator counts %r != pipeline %r (%r)' % (dense(m.tcounts_).tolist(), dense(pc).tolist(), case))
        return
    if not nan_equal(m.tprobs_, pt, 1e-15):
        ctx.violation('fit:tprobs', case, 'estimator tprobs != pipeline (%r)' % (case,))
    if not nan_equal(m.eq_probs_, pp, 1e-15):
        ctx.violation('fit:eq_probs', case, 'estimator eq_probs %r != pipeline %r' % (m.eq_probs_, pp))
    if dict(m.mapping_.to_original) != dict(mapping.to_original):
        ctx.violation('fit:mapping', case, 'estimator mapping %r != pipeline %r' % (m.mapping_, mapping))
    if m.n_states_ != dense(pt).shape[0]:
        ctx.violation('fit:n_states', case, 'n_states_ %r' % m.n_states_)
    cfg = m.config
    if cfg['lag_time'] != lag or cfg['trim'] != trim or cfg['sliding_window'] != sliding:
        ctx.violation('fit:config', case, 'config %r does not reflect the arguments %r' % (cfg, case))
    if case.get('roundtrip'):
        tmp = tempfile.mkdtemp(prefix='vfc16-')
        try:
            path = os.path.join(tmp, 'msm')
            m.save(path)
            m2 = MSM.load(path)
            ctx.guard('roundtrip')
            finite = np.isfinite(np.asarray(m.eq_probs_, float)).all()
            if finite and not (m == m2):
                ctx.violation('roundtrip:not_equal', case, 'MSM.load(MSM.save(m)) != m (%r)' % (case,))
            if not nan_equal(m2.tcounts_, m.tcounts_):
                ctx.violation('roundtrip:tcounts', case, '%r vs %r' % (dense(m2.tcounts_).tolist(), dense(m.tcounts_).tolist()))
            if not nan_equal(m2.tprobs_, m.tprobs_, 1e-15):
                ctx.violation('roundtrip:tprobs', case, 'max diff %g' % np.nanmax(np.abs(dense(m2.tprobs_) - dense(m.tprobs_))))
            if not nan_equal(m2.eq_probs_, m.eq_probs_, 1e-15):
                ctx.violation('roundtrip:eq_probs', case, '%r vs %r' % (m2.eq_probs_, m.eq_probs_))
            if dict(m2.mapping_.to_original) != dict(m.mapping_.to_original):
                ctx.violation('roundtrip:mapping', case, '%r vs %r' % (m2.mapping_, m.mapping_))
            c1, c2 = m.config, m2.config
            if any(c1[k] != c2[k] for k in ('lag_time', 'trim', 'sliding_window')) or c1['method'] is not c2['method']:
                ctx.violation('roundtrip:config', case, '%r vs %r' % (c1, c2))
        except Exception as e:
            ctx.violation('roundtrip:raises:%s' % type(e).__name__, case, 'save/load raised %r on %r' % (e, case))
        finally:
            shutil.rmtree(tmp, ignore_errors=True)


# ---------------------------------------------------------------- spectral part

def chains(tier):
    rows = [np.array(r) / 4.0 for r in mr.simplex_rows(3, 4)]
    out = []
    for t in itertools.product(range(len(rows)), repeat=3):
        T = np.array([rows[i] for i in t])
        if mr.strongly_connected(T):
            out.append(T)
    if tier == 'thorough':
        rows4 = [np.array(r) / 2.0 for r in mr.simplex_rows(4, 2)]
        for t in itertools.product(range(len(rows4)), repeat=4):
            T = np.array([rows4[i] for i in t])
            if mr.strongly_connected(T):
                out.append(T)
    return out


def check_spectrum(case, ctx):
    from enspara.msm.transition_matrices import eigenspectrum, eq_probs
    from enspara.msm import synthetic_data
    T = np.array(case['T'], float)
    cont = case['container']
    n = len(T)
    ctx.ev()
    ref = np.linalg.eigvals(T)
    cplx = bool((np.abs(ref.imag) > 1e-9).any())
    neg = bool((ref.real < -1e-9).any())
    ctx.state((T.tobytes(), n, cont), nontrivial=cplx or neg)
    if cplx:
        ctx.guard('complex_eigs')
    if neg:
        ctx.guard('negative_eigs')
    M = T.copy() if cont == 'ndarray' else sp.csr_matrix(T)
    try:
        vals, vecs = eigenspectrum(M)
    except Exception as e:
        ctx.violation('spectrum:raises:%s' % type(e).__name__, case, 'eigenspectrum raised %r' % (e,))
        return
    vals = np.asarray(vals)
    vecs = np.asarray(vecs)
    if np.iscomplexobj(vals) or np.iscomplexobj(vecs):
        ctx.violation('spectrum:complex_dtype', case, 'dtypes %s %s' % (vals.dtype, vecs.dtype))
        return
    if vals.shape != (n,) or vecs.shape != (n, n):
        ctx.violation('spectrum:shape', case, 'shapes %s %s' % (vals.shape, vecs.shape))
        return
    if (np.diff(vals) > 1e-12).any():
        ctx.violation('spectrum:not_descending', case, 'vals %r' % vals.tolist())
    if abs(vals[0] - 1) > 1e-9:
        ctx.violation('spectrum:leading_not_one', case, 'vals %r' % vals.tolist())
    want = np.sort(ref.real)[::-1]
    # a (nearly) defective eigenvalue of multiplicity m is only determined to eps**(1/m) by ANY floating-point
    # eigensolver (the reference included): the tolerance of entry i follows the size of its cluster
    mult = np.array([(np.abs(ref - w) < 1e-3).sum() for w in want])
    tol = np.maximum(1e-6, (1e-13) ** (1.0 / mult))
    if (np.abs(vals - want) > tol).any():
        ctx.violation('spectrum:values', case, 'vals %r, reference real parts %r' % (vals.tolist(), want.tolist()))
    for lam, r in zip(vals, ref[np.argsort(-ref.real)]):
        if abs(r.imag) < 1e-9:
            s = np.linalg.svd(T - lam * np.eye(n), compute_uv=False).min()
            if s > 1e-7:
                ctx.violation('spectrum:not_an_eigenvalue', case, 'lambda=%r sigma_min=%g' % (lam, s))
    v0 = vecs[:, 0]
    if v0.min() < -1e-12 or abs(v0.sum() - 1) > 1e-9 or np.abs(v0 @ T - v0).max() > 1e-9:
        ctx.violation('spectrum:first_vector_not_stationary', case, 'v0=%r' % v0.tolist())
    try:
        p = eq_probs(M)
        if np.abs(np.asarray(p) - v0).max() > 1e-12:
            ctx.violation('spectrum:eq_probs_differs', case, 'eq_probs %r vs %r' % (p, v0))
    except Exception as e:
        ctx.violation('spectrum:eq_probs_raises:%s' % type(e).__name__, case, repr(e))
    # synthetic_ensemble == repeated multiplication
    p0list = [np.array(p, float) for p in case.get('p0s', [])]
    if p0list:
        ind = np.zeros(n, dtype=np.int64)
        ind[n - 1] = 1
        p0list += [ind, ind.astype(np.float32), (np.arange(n) + 1).astype(np.int32)]   # indicator / walker counts
    for p0 in p0list:
        for steps in (1, 2, 5):
            ctx.ev()
            keep = p0.copy()
            try:
                pf, obs = synthetic_data.synthetic_ensemble(M, p0, steps)
            except Exception as e:
                ctx.violation('ensemble:raises:%s' % type(e).__name__, case, repr(e))
                break
            wantobs = np.array([p0.astype(float) @ np.linalg.matrix_power(T, k) for k in range(steps)])
            if obs.shape != wantobs.shape or np.abs(np.asarray(obs, float) - wantobs).max() > 1e-6 * (1 if p0.dtype == np.float32 else 1e-6) or np.abs(pf - wantobs[-1]).max() > 1e-6 * (1 if p0.dtype == np.float32 else 1e-6):
                ctx.violation('ensemble:value', case, 'steps=%d obs=%r want %r' % (steps, obs.tolist(), wantobs.tolist()))
                break
            if not np.array_equal(keep, p0):
                ctx.violation('ensemble:mutates_input', case, 'init_pops modified')
            obsv = np.arange(n, dtype=float) + 0.5
            _, o2 = synthetic_data.synthetic_ensemble(M, p0, steps, observable_per_state=obsv)
            if np.abs(np.asarray(o2) - wantobs @ obsv).max() > 1e-12:
                ctx.violation('ensemble:observable', case, 'steps=%d' % steps)
                break


def check_slow(case, ctx):
    """long propagations of slowly mixing chains: n steps = n multiplications, however small the change per step"""
    from enspara.msm import synthetic_data
    T = np.array(case['T'], float)
    p0 = np.array(case['p0'], dtype=case.get('p0_dtype', 'float64'))
    steps, cont = case['steps'], case['container']
    ctx.ev()
    ctx.guard('slow_chain_long_run')
    ctx.state(('slow', T.tobytes(), p0.tobytes(), steps, cont), nontrivial=True)
    M = T.copy() if cont == 'ndarray' else sp.csr_matrix(T)
    want = [p0.astype(float)]
    for k in range(steps - 1):
        want.append(want[-1] @ T)
    want = np.array(want)
    obsv = np.arange(len(T), dtype=float) * 2 + 1
    try:
        pf, hist = synthetic_data.synthetic_ensemble(M, p0, steps)
        _, obs = synthetic_data.synthetic_ensemble(M, p0, steps, observable_per_state=obsv)
    except Exception as e:
        ctx.violation('ensemble:slow:raises:%s' % type(e).__name__, case, repr(e))
        return
    hist = np.asarray(hist, float)
    if hist.shape != want.shape:
        ctx.violation('ensemble:slow:shape', case, 'history %s want %s' % (hist.shape, want.shape))
        return
    err = np.abs(hist - want).max(axis=1)
    if err.max() > 1e-12:
        k = int(np.argmax(err > 1e-12))
        ctx.violation('ensemble:slow:not_n_multiplications', case, 'history departs from p0 T^k at step %d (of %d): %r vs %r; final %r vs %r' % (
            k, steps, hist[k].tolist(), want[k].tolist(), hist[-1].tolist(), want[-1].tolist()))
        return
    if np.abs(np.asarray(pf, float) - want[-1]).max() > 1e-12 or np.abs(np.asarray(obs, float) - want @ obsv).max() > 1e-11:
        ctx.violation('ensemble:slow:final_or_observable', case, 'final %r want %r' % (np.asarray(pf).tolist(), want[-1].tolist()))


def slow_cases(tier):
    out = []
    for eps in (1e-2, 1e-4, 1e-6, 1e-8):
        chains = [[[1 - eps, eps], [2 * eps, 1 - 2 * eps]],
                  [[1 - eps, eps, 0], [eps, 1 - 3 * eps, 2 * eps], [0, 5 * eps, 1 - 5 * eps]],
                  [[0.5, 0.5 - eps, eps, 0], [0.3, 0.7 - eps, 0, eps], [eps, 0, 0.6 - eps, 0.4], [0, eps, 0.5, 0.5 - eps]]]
        for T in chains:
            n = len(T)
            for start in (0, n - 1):
                p0 = [0.0] * n
                p0[start] = 1.0
                for steps in (2, 50, 1000) + ((20000,) if tier == 'thorough' else (4000,)):
                    for cont in ('ndarray', 'csr'):
                        out.append({'kind': 'slow', 'T': T, 'p0': p0, 'steps': steps, 'container': cont})
            out.append({'kind': 'slow', 'T': T, 'p0': [1.0 / n] * n, 'steps': 300, 'container': 'ndarray'})
    return out


def big_chain(n, stay, skew):
    """lazy random walk on a weighted bipartite circulant graph: node i <-> i +- (2^m - 1) mod n, m = 1..6 (n even),
    edge weight 1 + ((i + j) % 3).  Reversible with respect to pi ~ weighted degree (NOT uniform, so left and right
    eigenvectors differ), real well-conditioned spectrum: 1, a gap, and about -(1-2*stay) at the other end (nearly
    periodic for small `stay`).  `skew` is kept for the case format only."""
    W = np.zeros((n, n))
    offs = [2 ** m - 1 for m in range(1, 7)]
    for i in range(n):
        for o in offs:
            for sgn in (1, -1):
                j = (i + sgn * o) % n
                W[i, j] = 1 + ((i + j) % 3)
    d = W.sum(axis=1)
    return stay * np.eye(n) + (1 - stay) * W / d[:, None]


def big_chain_reference(T):
    """eigenvalues (descending) and stationary vector through the symmetrised form D^1/2 T D^-1/2 (LAPACK eigh)"""
    n = len(T)
    # stationary vector from detailed balance along a spanning structure: pi ~ weighted degree = 1 / diag scaling
    # recover d_i up to scale from T: for an edge (i,j): pi_i T_ij = pi_j T_ji
    pi = np.ones(n)
    seen = {0}
    stack = [0]
    while stack:
        i = stack.pop()
        for j in np.nonzero(T[i])[0]:
            if j not in seen and j != i:
                pi[j] = pi[i] * T[i, j] / T[j, i]
                seen.add(int(j))
                stack.append(int(j))
    pi /= pi.sum()
    s = np.sqrt(pi)
    S = (s[:, None] * T) / s[None, :]
    w = np.linalg.eigvalsh((S + S.T) / 2)
    return np.sort(w)[::-1], pi


def check_arpack(case, ctx):
    """sparse matrices with >= 1000 states take the ARPACK branch of eigenspectrum"""
    from enspara.msm.transition_matrices import eigenspectrum, eq_probs
    n, stay, skew, k = case['n'], case['stay'], case['skew'], case['n_eigs']
    T = big_chain(n, stay, skew)
    ctx.ev()
    ctx.guard('arpack_branch')
    ref, pi_ref = big_chain_reference(T)
    want = ref[:k]
    ctx.state(('arpack', n, stay, skew, k), nontrivial=bool((ref < -0.5).any()))
    try:
        vals, vecs = eigenspectrum(sp.csr_matrix(T), n_eigs=k)
    except Exception as e:
        ctx.violation('arpack:raises:%s' % type(e).__name__, case, 'eigenspectrum raised %r on %r' % (e, case))
        return
    vals = np.asarray(vals)
    if vals.shape != (k,) or np.iscomplexobj(vals) or (np.diff(vals) > 1e-9).any() or abs(vals[0] - 1) > 1e-8:
        ctx.violation('arpack:order_or_leading', case, 'vals %r' % vals.tolist())
    elif np.abs(vals - want).max() > 1e-6:
        ctx.violation('arpack:not_the_largest_eigenvalues', case,
                      'returned %r, the %d largest (by real part) are %r (%r)' % (vals.tolist(), k, want.tolist(), case))
    v0 = np.asarray(vecs)[:, 0]
    if v0.min() < -1e-9 or abs(v0.sum() - 1) > 1e-8 or np.abs(v0 @ T - v0).max() > 1e-8 or np.abs(v0 - pi_ref).max() > 1e-8:
        ctx.violation('arpack:first_vector_not_stationary', case, 'residual %g, distance to the stationary vector %g' % (
            np.abs(v0 @ T - v0).max(), np.abs(v0 - pi_ref).max()))
    # the builders use the same path for populations
    try:
        from enspara.msm import builders
        Cbig = sp.csr_matrix(np.round(T * 1000))
        _, Tn, pn = builders.normalize(Cbig)
        Td = Tn.toarray()
        if np.abs(pn @ Td - pn).max() > 1e-8 or abs(pn.sum() - 1) > 1e-8 or pn.min() < -1e-9:
            ctx.violation('arpack:normalize_populations_not_stationary', case, 'residual %g' % np.abs(pn @ Td - pn).max())
    except Exception as e:
        ctx.violation('arpack:normalize_raises:%s' % type(e).__name__, case, repr(e))


def check_imp(case, ctx):
    from enspara.msm import builders
    from enspara.msm.timescales import implied_timescales
    from enspara.msm.transition_matrices import assigns_to_counts
    from enspara import ra
    trajs, lags, bname = case['trajs'], case['lags'], case['builder']
    a = ra.RaggedArray([np.array(t, dtype=case.get('assign_dtype', 'int64')) for t in trajs])
    builder = getattr(builders, bname)
    lags_arg = lags
    if case.get('lags_form'):
        # the lag times as the caller may hold them: tuple, or an integer ndarray of any width / signedness
        lags_arg = tuple(lags) if case['lags_form'] == 'tuple' else np.array(lags, dtype=case['lags_form'])
        ctx.guard('lag_forms')
    if case.get('assign_dtype'):
        ctx.guard('narrow_assignments')
    ctx.ev()
    ctx.state(('imp', tuple(map(tuple, trajs)), tuple(lags), bname, case.get('lags_form'), case.get('assign_dtype')))
    n_states = max(max(t) for t in trajs) + 1
    if n_states < 2:
        return
    if case.get('trim'):
        # with trimming the model can have fewer states than eigenvalues requested at some lag; the formula is then
        # undefined for the missing ones (precondition decided by the function pipeline, not by the implementation)
        from enspara.msm.transition_matrices import trim_disconnected
        sizes = []
        for lag in lags:
            try:
                Cc = assigns_to_counts(a, lag_time=lag, max_n_states=n_states, sliding_window=case['sliding'])
                sizes.append(trim_disconnected(Cc)[1].shape[0])
            except Exception:
                sizes.append(0)
        if min(sizes) < n_states:
            ctx.guard('imp_trim_fewer_states')
            return
    try:
        it = implied_timescales(a, lags_arg, builder, n_times=min(n_states - 1, case.get('n_times_cap', 10 ** 9)), sliding_window=case['sliding'], trim=case.get('trim', False))
    except Exception as e:
        # the pipeline itself may legitimately fail (e.g. no counts); must then fail the same way by hand
        try:
            for lag in lags:
                C = assigns_to_counts(a, lag_time=lag, max_n_states=n_states, sliding_window=case['sliding'])
                builder(C)
        except Exception:
            return
        ctx.violation('imp_times:raises:%s' % type(e).__name__, case, 'implied_timescales raised %r on %r' % (e, case))
        return
    ctx.guard('imp_times')
    it = np.asarray(it)
    if it.shape != (len(lags), min(n_states - 1, case.get('n_times_cap', 10 ** 9))):
        ctx.violation('imp_times:shape', case, 'shape %s' % (it.shape,))
        return
    for row, lag in zip(it, lags):
        C = assigns_to_counts(a, lag_time=lag, max_n_states=n_states, sliding_window=case['sliding'])
        if case.get('trim'):
            from enspara.msm.transition_matrices import trim_disconnected
            _, C = trim_disconnected(C)
        _, T, _ = builder(C)
        ref = np.linalg.eigvals(dense(T).astype(float))
        ref = ref[np.argsort(-ref.real)][1:]
        for got, lam in zip(row, ref):
            if abs(lam.imag) < 1e-9 and 1e-6 < lam.real < 1 - 1e-6:
                want = -lag / np.log(lam.real)
                if not np.isfinite(got) or abs(got - want) > 1e-6 * max(1, abs(want)):
                    ctx.violation('imp_times:value', case, 'lag %d: got %r, -lag/ln(%r) = %r' % (lag, got, lam.real, want))
                    return


def run_shard(sh, ctx):
    kind, tier, i = sh
    if kind == 'slow':
        cs = slow_cases(tier)
        for j in range(i, len(cs), 8):
            check_slow(cs[j], ctx)
        ctx.sample(cs[i])
        return
    if kind == 'fit':
        S = seqs(4)
        S2 = S if tier == 'thorough' else S[3::5]
        sets = [[s] for s in S] + [[s, u] for s in S for u in S2]
        k = 0
        for j in range(i, len(sets), NSH[tier]):
            trajs = sets[j]
            jj = j // NSH[tier]
            for lag in (1, 2, 3):
                if tier == 'quick' and lag == 3 and jj % 3:
                    continue
                for bname in ('normalize', 'transpose', 'mle'):
                    for trim in (False, True):
                        if bname == 'mle' and (jj % 5 or not trim):
                            continue     # the reversible MLE is only defined after ergodic trimming
                        for sliding in (True, False):
                            for mns in (None, 5):
                                if tier == 'quick' and mns == 5 and jj % 2:
                                    continue
                                k += 1
                                case = {'kind': 'fit', 'trajs': trajs, 'lag': lag, 'builder': bname, 'trim': trim,
                                        'sliding': sliding, 'mns': mns, 'roundtrip': k % 7 == 0}
                                check_fit(case, ctx)
            if jj % 16 == 0 and len(trajs) == 2:
                check_imp({'kind': 'imp', 'trajs': trajs, 'lags': [1, 2], 'builder': 'normalize', 'sliding': True}, ctx)
                check_imp({'kind': 'imp', 'trajs': trajs, 'lags': [2], 'builder': 'transpose', 'sliding': False}, ctx)
            if j % 997 == 0:
                ctx.sample(case)
        # two-island assignment sets (every state has in- and out-transitions, yet the graph is not strongly connected)
        from .c11 import island_sets
        isl = island_sets()
        for j in range(i, len(isl), NSH[tier]):
            for lag in (1, 2):
                for bname in ('normalize', 'transpose'):
                    for sliding in (True, False):
                        check_fit({'kind': 'fit', 'trajs': isl[j], 'lag': lag, 'builder': bname, 'trim': True, 'sliding': sliding,
                                   'mns': None, 'roundtrip': False}, ctx)
        # implied timescales on longer trajectories (so that strided and sliding counts differ at lag 2, 3)
        longs = [((0, 1, 1, 2, 0, 1, 2, 2, 0), (2, 1, 0, 0, 1, 2, 1)), ((0, 0, 1, 2, 1, 0, 2, 1), (1, 2, 0, 1, 0, 2)),
                 ((0, 1, 0, 2, 2, 1, 0, 1, 2, 0),), ((2, 2, 1, 0, 1, 1, 2, 0, 0, 1), (0, 2, 1))]
        for j in range(i, len(longs) * 8, NSH[tier]):
            trajs = longs[j % len(longs)]
            v = j // len(longs)
            check_imp({'kind': 'imp', 'trajs': trajs, 'lags': [1, 2, 3], 'builder': ('normalize', 'transpose')[v % 2],
                       'sliding': bool((v // 2) % 2), 'trim': bool((v // 4) % 2)}, ctx)
            form = ('tuple', 'uint8', 'uint64', 'int32', 'int16', 'uint16', 'int64', 'uint32')[v % 8]
            check_imp({'kind': 'imp', 'trajs': trajs, 'lags': [1, 2, 3], 'builder': 'normalize', 'sliding': True, 'lags_form': form}, ctx)
            # state ids up to the largest value the storage type of the assignments can hold
            for dt, top in (('int8', 127), ('uint8', 255), ('int16', 300)):
                tr2 = [tuple(top if x == 2 else x for x in t) for t in trajs]
                if (v + top) % 3 == 0:
                    check_imp({'kind': 'imp', 'trajs': tr2, 'lags': [1, 2], 'builder': 'normalize', 'sliding': True, 'assign_dtype': dt,
                               'n_times_cap': 2}, ctx)
    elif kind == 'arpack':
        # reversible walks only: for skewed (highly non-normal) walks of this size the eigenvalues themselves are
        # ill-conditioned (dense LAPACK on T and on T.T disagree in the 3rd digit), so no oracle exists
        grid = [(n, stay, skew, k) for n in (1000, 1100) for stay in (0.03, 0.5) for skew in (0.5,) for k in (2, 4, 6)]
        for j in range(i, len(grid), 8):
            n, stay, skew, k = grid[j]
            case = {'kind': 'arpack', 'n': n, 'stay': stay, 'skew': skew, 'n_eigs': k}
            check_arpack(case, ctx)
        ctx.sample(case)
    else:
        cs = chains(tier)
        p0s = [list(np.array(r) / 2.0) for r in mr.simplex_rows(3, 2)]
        for j in range(i, len(cs), 16):
            T = cs[j]
            for cont in ('ndarray', 'csr'):
                case = {'kind': 'spec', 'T': T.tolist(), 'container': cont,
                        'p0s': (p0s if len(T) == 3 and (j // 16) % 4 == 0 else [])}
                check_spectrum(case, ctx)
        ctx.sample(case)


def replay(case, ctx):
    {'fit': check_fit, 'spec': check_spectrum, 'imp': check_imp, 'arpack': check_arpack, 'slow': check_slow}[case['kind']](case, ctx)
