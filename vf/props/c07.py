"""C07 - committors and mean first-passage times satisfy their first-step equations.

E1: all irreducible lattice-stochastic matrices n=3 (denominator 4), n=4 (denominator 2; T: 3) x all
disjoint (sources, sinks) x containers x lag times.  Oracle: residuals of the defining equations.
"""
import itertools

import numpy as np
import scipy.sparse as sp

from ..models import msmref as mr
from ..models import tptref as tr

ID = 'C07'
RULE = ('irreducible row-stochastic matrices with rows on the simplex lattice: n=3 denominator 4 (2072 chains), n=4 '
        'denominator 2 (Q: every 3rd; T: all + denominator 3 every 5th) x all disjoint non-empty (sources,sinks) x '
        'containers {ndarray (C, Fortran-ordered, transposed view, strided view), csr,csc,coo,lil} (sparse on every 2nd chain in Q) x lag {1,2.5,1e-9,3e6} (residuals relative to the time unit); single states also as bare python/numpy ints, multi-state sets also as caller-owned descending int64/int32 arrays (same answer, arrays unchanged); state=(T,A,B,container); '
        'non-trivial = non-reversible or periodic chain with >=1 intermediate state')
ASSUMPTIONS = ['residual tolerance 1e-9 on the first-step equations (direct linear solves of well-conditioned small systems)',
               'scipy sparse matrix containers csr/csc/coo/lil']
GUARDS = {'array_ids': 200, 'scalar_ids': 200, 'nonreversible': 500, 'multi_sink': 500, 'multi_source': 500, 'sparse': 500, 'dense_layouts': 200, 'periodic': 10, 'intermediate': 500}
NSH = {'quick': 64, 'thorough': 256}
CONTAINERS = ('ndarray', 'ndarrayF', 'ndarrayT', 'ndarrayS', 'csr', 'csc', 'coo', 'lil')


def chains(tier):
    rows = [np.array(r) / 4.0 for r in mr.simplex_rows(3, 4)]
    out = []
    for t in itertools.product(range(len(rows)), repeat=3):
        T = np.array([rows[i] for i in t])
        if mr.strongly_connected(T):
            out.append(T)
    rows4 = [np.array(r) / 2.0 for r in mr.simplex_rows(4, 2)]
    k = 0
    for t in itertools.product(range(len(rows4)), repeat=4):
        T = np.array([rows4[i] for i in t])
        if mr.strongly_connected(T):
            k += 1
            if tier == 'thorough' or k % 3 == 0:
                out.append(T)
    if tier == 'thorough':
        rows43 = [np.array(r) / 3.0 for r in mr.simplex_rows(4, 3)]
        k = 0
        for t in itertools.product(range(len(rows43)), repeat=4):
            k += 1
            if k % 5:
                continue
            T = np.array([rows43[i] for i in t])
            if mr.strongly_connected(T):
                out.append(T)
    return out


def shards(tier, seed):
    return [(tier, i) for i in range(NSH[tier])]


def wrap(T, cont):
    if cont == 'ndarray':
        return T.copy()
    if cont == 'ndarrayF':
        return np.asfortranarray(T)
    if cont == 'ndarrayT':
        return np.ascontiguousarray(T.T).T            # transposed view (Fortran strides, does not own its data)
    if cont == 'ndarrayS':
        base = np.zeros((2 * len(T), 2 * len(T)))
        base[::2, ::2] = T
        return base[::2, ::2]                          # non-contiguous strided view
    return getattr(sp, cont + '_matrix')(T)


def pi_of(T):
    w, v = np.linalg.eig(T.T)
    k = np.argmin(np.abs(w - 1))
    p = np.real(v[:, k])
    return p / p.sum()


def check_case(case, ctx, pairs=None):
    from enspara import tpt
    T = np.array(case['T'], float)
    cont = case['container']
    n = len(T)
    M = wrap(T, cont)
    ctag = 'dense' if cont.startswith('ndarray') else 'sparse'
    pi = pi_of(T)
    rev = np.abs(pi[:, None] * T - (pi[:, None] * T).T).max() < 1e-12
    per = bool(np.any(np.abs(np.abs(np.linalg.eigvals(T)) - 1) < 1e-9) and
               np.sum(np.abs(np.abs(np.linalg.eigvals(T)) - 1) < 1e-9) > 1)
    before = mr.to_dense(M).copy()
    for A, B in (pairs if pairs is not None else [(case['A'], case['B'])]):
        ctx.ev()
        c = dict(case, A=A, B=B)
        inter = n - len(A) - len(B)
        ctx.state((T.tobytes(), n, cont, tuple(A), tuple(B)), nontrivial=bool((not rev or per) and inter > 0))
        if not rev:
            ctx.guard('nonreversible')
        if per:
            ctx.guard('periodic')
        if len(B) > 1:
            ctx.guard('multi_sink')
        if len(A) > 1:
            ctx.guard('multi_source')
        if inter > 0:
            ctx.guard('intermediate')
        if not cont.startswith('ndarray'):
            ctx.guard('sparse')
        elif cont != 'ndarray':
            ctx.guard('dense_layouts')
        # a single state may be given as a bare id (python int or numpy integer): same answer as the 1-element list
        if len(A) == 1 and len(B) == 1:
            for spell in (int, np.int64):
                try:
                    q1 = np.asarray(tpt.committors(M, spell(A[0]), spell(B[0]))).astype(float).ravel()
                    qL = np.asarray(tpt.committors(M, A, B)).astype(float).ravel()
                    m1 = np.asarray(tpt.mfpts(M, sinks=spell(B[0]), lagtime=2.5)).astype(float)
                    mL = np.asarray(tpt.mfpts(M, sinks=B, lagtime=2.5)).astype(float)
                    ctx.guard('scalar_ids')
                    if q1.shape != qL.shape or np.abs(q1 - qL).max() > 0 or m1.shape != mL.shape or np.abs(m1 - mL).max() > 0:
                        ctx.violation('tpt:scalar_id_differs_from_list:%s' % ctag, c,
                                      'sinks=%r given as a bare %s: committors %r vs %r, mfpts shape %s vs %s' % (
                                          B[0], spell.__name__, q1.tolist(), qL.tolist(), m1.shape, mL.shape))
                        break
                except Exception as e:
                    ctx.violation('tpt:scalar_id_raises:%s:%s' % (ctag, type(e).__name__), c, 'bare state id raised %r (%r)' % (e, c))
                    break
        # the state sets may be given as caller-owned integer arrays in any order: same answer, arrays untouched
        if len(A) > 1 or len(B) > 1:
            for dt in ('int64', 'int32'):
                Aa, Ba = np.array(A[::-1], dtype=dt), np.array(B[::-1], dtype=dt)
                keepA, keepB = Aa.copy(), Ba.copy()
                try:
                    qa = np.asarray(tpt.committors(M, Aa, Ba)).astype(float).ravel()
                    ma = np.asarray(tpt.mfpts(M, sinks=Ba, lagtime=2.5)).astype(float).ravel()
                    qL = np.asarray(tpt.committors(M, A, B)).astype(float).ravel()
                    mL = np.asarray(tpt.mfpts(M, sinks=B, lagtime=2.5)).astype(float).ravel()
                    ctx.guard('array_ids')
                    if not (np.array_equal(Aa, keepA) and np.array_equal(Ba, keepB)):
                        ctx.violation('tpt:mutates_state_ids:%s' % ctag, c, 'caller arrays sources %r -> %r, sinks %r -> %r' % (
                            keepA.tolist(), Aa.tolist(), keepB.tolist(), Ba.tolist()))
                        break
                    if qa.shape != qL.shape or np.abs(qa - qL).max() > 1e-12 or ma.shape != mL.shape or np.abs(ma - mL).max() > 1e-9 * (1 + np.abs(mL).max()):
                        ctx.violation('tpt:array_ids_differ_from_list:%s' % ctag, c, 'descending %s arrays: committors %r vs %r; mfpts %r vs %r' % (
                            dt, qa.tolist(), qL.tolist(), ma.tolist(), mL.tolist()))
                        break
                except Exception as e:
                    ctx.violation('tpt:array_ids_raise:%s:%s' % (ctag, type(e).__name__), c, 'integer-array state sets raised %r (%r)' % (e, c))
                    break
        # committors
        try:
            q = np.asarray(tpt.committors(M, A, B)).astype(float).ravel()
            if q.shape != (n,):
                ctx.violation('committors:shape:%s' % ctag, c, 'shape %s' % (q.shape,))
            else:
                r = tr.committor_residual(T, A, B, q)
                ctx.maxi('max_committor_residual', r)
                if not np.isfinite(r) or r > 1e-9:
                    ctx.violation('committors:equations:%s' % ctag, c, 'residual %g q=%r (%r)' % (r, q.tolist(), c))
        except Exception as e:
            ctx.violation('committors:raises:%s:%s' % (ctag, type(e).__name__), c, 'committors raised %r on %r' % (e, c))
        # mfpts to the sink set
        for tau in (1.0, 2.5, 1e-9, 3e6):
            try:
                m = np.asarray(tpt.mfpts(M, sinks=B, lagtime=tau)).astype(float).ravel()
                if m.shape != (n,):
                    ctx.violation('mfpts:shape:%s' % ctag, c, 'shape %s' % (m.shape,))
                    continue
                r = tr.mfpt_residual(T, B, m, tau)
                ctx.maxi('max_mfpt_residual', r)
                if not np.isfinite(r) or r > 1e-9 * max(tau, np.abs(m).max()):      # relative to the time unit in use
                    ctx.violation('mfpts:equations:%s' % ctag, c, 'residual %g m=%r tau=%g (%r)' % (r, m.tolist(), tau, c))
            except Exception as e:
                ctx.violation('mfpts:raises:%s:%s' % (ctag, type(e).__name__), c, 'mfpts raised %r on %r' % (e, c))
                break
    # all-pairs table (once per chain/container)
    if pairs is not None or case.get('allpairs'):
        ctx.ev()
        c = dict(case, allpairs=True)
        try:
            for pops in (None, pi):
                for tau in (1.0, 2.5, 1e-9):
                    tab = np.asarray(tpt.mfpts(M, populations=None if pops is None else pops.copy(), lagtime=tau)).astype(float)
                    if tab.shape != (n, n):
                        ctx.violation('mfpts:allpairs_shape:%s' % ctag, c, 'shape %s' % (tab.shape,))
                        break
                    for j in range(n):
                        r = tr.mfpt_residual(T, [j], tab[:, j], tau)
                        single = np.asarray(tpt.mfpts(M, sinks=[j], lagtime=tau)).astype(float).ravel()
                        scale = max(tau, np.abs(single).max())
                        if r > 1e-8 * scale or np.abs(single - tab[:, j]).max() > 1e-8 * scale:
                            ctx.violation('mfpts:allpairs_vs_single:%s' % ctag, c,
                                          'column %d: table %r single-sink %r residual %g (%r)' % (j, tab[:, j].tolist(), single.tolist(), r, c))
                            break
                    if tau == 1.0:
                        base = tab
                    elif np.abs(tab - tau * base).max() > 1e-9 * max(tau, np.abs(tab).max()):
                        ctx.violation('mfpts:not_linear_in_lag', c, 'table(lag=%g) != %g * table(lag=1): max deviation %g' % (
                            tau, tau, np.abs(tab - tau * base).max()))
        except Exception as e:
            ctx.violation('mfpts:raises:%s:%s' % (ctag, type(e).__name__), c, 'all-pairs mfpts raised %r on %r' % (e, c))
    if not np.array_equal(mr.to_dense(M), before):
        ctx.violation('tpt:mutates_input:%s' % cont, case, 'transition matrix modified')


def run_shard(sh, ctx):
    tier, i = sh
    cs = chains(tier)
    for j in range(i, len(cs), NSH[tier]):
        T = cs[j]
        pairs = tr.ab_pairs(len(T))
        for cont in CONTAINERS:
            if tier == 'quick' and cont != 'ndarray':
                jj = j // NSH[tier]
                if jj % 2 or (cont in ('csc', 'coo', 'ndarrayS') and jj % 4):
                    continue
            check_case({'T': T.tolist(), 'container': cont}, ctx, pairs=pairs)
        if j % 257 == 0:
            ctx.sample({'T': T.tolist(), 'container': cont, 'A': pairs[0][0], 'B': pairs[0][1]})


def replay(case, ctx):
    if 'A' in case:
        check_case(case, ctx)
    else:
        check_case(case, ctx, pairs=tr.ab_pairs(len(case['T'])))
