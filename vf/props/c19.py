"""C19 - results depend on arguments only, not on history, threads or heap contents.

E3 over call histories (depth 2, T: 3 on a reduced menu) x heap words x thread settings with a DIFFERENTIAL oracle:
every call must return, bit for bit, what the same call returns from the pristine state; arguments are
snapshotted before and compared after every call.  Every history runs in a forked child of a pristine worker
(enspara imported, nothing called), so a violation replays identically.
Plus an exhaustive AST scan for masked ufunc calls (`where=`) that allocate their own output.
"""
import ast
import hashlib
import itertools
import json
import os
import pickle
import subprocess
import sys

import numpy as np

from .. import build

ID = 'C19'
VARIANT = 'sched'
ENGINE = 'E3-explicit-state-bfs'
TECHNIQUE = ('explicit-state exploration of call histories x heap-content alphabet x thread settings with a differential '
             'oracle (same call from the pristine state), each history in a forked child; exhaustive AST site enumeration '
             'of masked ufunc calls without out=')
RULE = ('routine menu (entropy/KL/JS, mutual_information on tables of one shape with and without an all-zero block, weighted_mi, normalisation, joint_counts, '
        'builders, counts, trimming, eigenspectrum, tpt, paths (built-in schemes and a user-supplied in-place removal callable), nearest-centre assignment, seeded kcenters/kmedoids/hybrid, distance '
        'kernels, RaggedArray operators, ra.save/load, load_as_concatenated on the simulated pool); histories: every ordered '
        'pair of routines (T: + triples over a 12-routine core) x heap words {0.0,NaN,+inf,1.0,-3.5,0xFF..FF,1e300}; thread '
        'settings: gompshim T in {1,2,3} default and reversed order, real libgomp 1/2/16 threads; state = fingerprint of all '
        'enspara module globals after the history + heap word; non-trivial = history whose first call allocates >=1 numpy '
        'buffer through the poisoning allocator')
ASSUMPTIONS = ['heap states are abstracted to "every fresh numpy allocation returns one word of a 7-word alphabet" (calloc stays zero)',
               'the pristine state is a forked copy of a worker that has imported enspara and called nothing',
               'in-place routines (RaggedArray.__setitem__/append, out= buffers) are the documented exceptions and not in the menu',
               'bit-identical comparison of canonicalised results (dtype, shape, bytes; NaN payloads included)']
GUARDS = {'histories': 1000, 'poison_words': 7, 'thread_settings': 5, 'masked_with_false': 3, 'allocating_calls': 100,
          'real_threads': 3}
EXTS = ('enspara.geometry.libdist', 'enspara.info_theory.libinfo')
WORDS = {'zero': 0x0000000000000000, 'nan': 0x7ff8000000000000, 'inf': 0x7ff0000000000000, 'one': 0x3ff0000000000000,
         'neg3.5': 0xc00c000000000000, 'ff': 0xffffffffffffffff, '1e300': 0x7e37e43c8800759c}


# ---------------------------------------------------------------- menu

def _menu():
    """name -> builder() returning (fn, args, kwargs); args are fresh on every call"""
    import scipy.sparse as sp
    from enspara.info_theory import entropy as ent, mutual_info as mi
    from enspara.msm import builders, transition_matrices as tm, synthetic_data
    from enspara import tpt, ra
    from enspara.cluster import kcenters as kc, kmedoids as km, hybrid as hy, util as cu
    from enspara.geometry import libdist, rotamer
    from enspara.cards import disorder

    C = lambda: np.array([[3, 1, 0], [1, 2, 2], [0, 1, 4]])
    T = lambda: np.array([[0.5, 0.5, 0.0], [0.25, 0.5, 0.25], [0.0, 0.5, 0.5]])
    X = lambda: np.array([[0.0, 1.0], [4.0, 0.5], [9.0, 3.0], [2.0, 7.0], [6.0, 6.0]])
    F = lambda: np.array([[0, 1], [1, 1], [0, 2], [1, 0]], dtype=np.int32)
    jc0 = lambda: np.array([[[[2, 0], [1, 1]], [[0, 0], [0, 0]]], [[[0, 0], [0, 0]], [[1, 1], [0, 2]]]], dtype=np.uint32)
    flux = lambda: np.array([[0, 2., 1, 0], [0, 0, 1, 1.], [0, 0, 0, 2], [0, 0, 0, 0]])
    A = lambda: ra.RaggedArray([np.array([1, 2, 3]), np.array([4])])
    m = {}
    m['shannon_entropy_zero'] = lambda: (ent.shannon_entropy, (np.array([0.5, 0.0, 0.5]),), {})
    m['shannon_entropy_2d_zero'] = lambda: (ent.shannon_entropy, (np.array([[0.25, 0.0], [0.5, 0.25]]),), {})
    m['shannon_entropy_pos'] = lambda: (ent.shannon_entropy, (np.array([0.2, 0.3, 0.5]),), {'normalize': False})
    m['kl'] = lambda: (ent.kl_divergence, (np.array([0.5, 0.0, 0.5]), np.array([0.25, 0.25, 0.5])), {})
    m['js'] = lambda: (ent.js_divergence, (np.array([0.5, 0.0, 0.5]), np.array([0.25, 0.25, 0.5])), {})
    m['mutual_information'] = lambda: (mi.mutual_information, (mi.joint_counts(F(), n_x=3),), {})
    m['mutual_information_zero_block'] = lambda: (mi.mutual_information, (jc0(),), {})
    # the same SHAPE with every block populated: a masked evaluation that keeps state between calls shows when the two alternate
    m['mutual_information_full_block'] = lambda: (mi.mutual_information, (np.array(
        [[[[2, 0], [1, 1]], [[1, 2], [0, 1]]], [[[1, 0], [2, 1]], [[1, 1], [0, 2]]]], dtype=np.uint32),), {})
    m['kl_pos'] = lambda: (ent.kl_divergence, (np.array([0.2, 0.3, 0.5]), np.array([0.25, 0.25, 0.5])), {})
    m['joint_counts'] = lambda: (mi.joint_counts, (F(), F()[:, :1].copy()), {'n_x': 3, 'n_y': 2})
    m['weighted_mi'] = lambda: (mi.weighted_mi, (F().astype(np.int64), np.array([0.1, 0.2, 0.3, 0.4])), {'n_feature_states': np.array([2, 3])})
    m['mi_matrix'] = lambda: (mi.mi_matrix, ([F(), F()[::-1].copy()], [F(), F()], np.array([2, 3]), np.array([2, 3])), {})
    m['ccn'] = lambda: (mi.channel_capacity_normalization, (np.array([[0.1, 0.2], [0.2, 0.4]]), np.array([2, 3]), np.array([2, 3])), {})
    for b in ('normalize', 'transpose', 'mle'):
        m['builder_%s' % b] = (lambda b=b: (getattr(builders, b), (C(),), {}))
        m['builder_%s_csr_prior' % b] = (lambda b=b: (getattr(builders, b), (sp.csr_matrix(C()),), {'prior_counts': 1}))
    m['assigns_to_counts'] = lambda: (tm.assigns_to_counts, (ra.RaggedArray([[0, 1, 1, 2], [2, 0]]),), {'lag_time': 1})
    m['trim_disconnected'] = lambda: (tm.trim_disconnected, (np.array([[2, 1, 0], [1, 2, 0], [0, 1, 5]]),), {})
    m['eigenspectrum'] = lambda: (tm.eigenspectrum, (T(),), {})
    m['eq_probs_csr'] = lambda: (tm.eq_probs, (sp.csr_matrix(T()),), {})
    m['committors'] = lambda: (tpt.committors, (T(), [0], [2]), {})
    m['committors_csr'] = lambda: (tpt.committors, (sp.csr_matrix(T()), [0], [2]), {})
    m['mfpts_all'] = lambda: (tpt.mfpts, (T(),), {})
    m['mfpts_sink'] = lambda: (tpt.mfpts, (T(),), {'sinks': [2], 'lagtime': 2.5})
    m['reactive_fluxes'] = lambda: (tpt.reactive_fluxes, (T(), [0], [2]), {})
    m['net_fluxes_csr'] = lambda: (tpt.net_fluxes, (sp.csr_matrix(T()), [0], [2]), {})
    m['reactive_populations'] = lambda: (tpt.reactive_populations, (T(), [0], [2]), {'populations': np.array([0.25, 0.5, 0.25])})
    m['top_path'] = lambda: (tpt.top_path, ([0], [3], flux()), {})
    m['paths'] = lambda: (tpt.paths, ([0], [3], flux()), {'remove_path': 'subtract'})
    def inplace_remover(nf, path):
        # a user-supplied removal scheme (documented third option) that works in place on the matrix it is handed
        path = np.asarray(path)
        f = nf[path[:-1], path[1:]].min()
        nf[path[:-1], path[1:]] -= f
        return nf
    m['paths_callable_inplace'] = lambda: (tpt.paths, ([0], [3], flux()), {'remove_path': inplace_remover})
    m['paths_bottleneck'] = lambda: (tpt.paths, ([0], [3], flux()), {'remove_path': 'bottleneck', 'num_paths': 2})
    m['synthetic_ensemble'] = lambda: (synthetic_data.synthetic_ensemble, (T(), np.array([1.0, 0, 0]), 4), {})
    m['assign_to_nearest_center'] = lambda: (cu.assign_to_nearest_center, (X(), [X()[0], X()[3]], libdist.euclidean), {})
    # a frame with a missing value: its distance to every center is NaN, so no comparison ever selects a center for it -
    # the label it gets must still come from the arguments, not from what the allocator hands out
    def Xnan():
        x = X()
        x[2, 1] = np.nan
        return x
    m['assign_to_nearest_center_nan_frame'] = lambda: (cu.assign_to_nearest_center, (Xnan(), [X()[0], X()[3]], libdist.euclidean), {})
    m['find_cluster_centers'] = lambda: (cu.find_cluster_centers, (np.array([0, 1, 0, 1, 1]), np.array([0.5, 0.0, 0.25, 2.0, 0.0])), {})
    m['kcenters'] = lambda: (kc.kcenters, (X(), 'euclidean'), {'n_clusters': 3})
    m['kcenters_radius_tri'] = lambda: (kc.kcenters, (X(), 'manhattan'), {'dist_cutoff': 4.0, 'use_triangle_inequality': True})
    m['kmedoids'] = lambda: (km.kmedoids, (X(), 'euclidean'), {'n_clusters': 2, 'n_iters': 2, 'random_state': 3})
    m['hybrid'] = lambda: (hy.hybrid, (X(), 'euclidean'), {'n_clusters': 2, 'n_iters': 2, 'random_state': 5})
    m['euclidean'] = lambda: (libdist.euclidean, (X(), np.array([1.0, 2.0])), {})
    Xw = lambda: ((np.arange(5 * 1500).reshape(5, 1500) * 7919 % 1000) / 7.0)
    m['euclidean_wide'] = lambda: (libdist.euclidean, (Xw(), ((np.arange(1500) * 31 % 97) / 3.0)), {})
    m['kcenters_wide'] = lambda: (kc.kcenters, (Xw(), 'euclidean'), {'n_clusters': 3})
    m['manhattan_f'] = lambda: (libdist.manhattan, (np.asfortranarray(X()), np.array([1.0, 2.0])), {})
    m['hamming'] = lambda: (libdist.hamming, (F().astype(np.uint8), np.array([0, 1], dtype=np.uint8)), {})
    m['ra_add'] = lambda: ((lambda a, b: a + b), (A(), A()), {})
    m['ra_lt_scalar'] = lambda: ((lambda a: a < 3), (A(),), {})
    m['ra_getitem_2d'] = lambda: ((lambda a: a[:, ::-1]), (A(),), {})
    m['ra_where'] = lambda: ((lambda a: ra.where(a > 1)), (A(),), {})
    m['rotamers'] = lambda: (rotamer._rotamers, (np.array([10.0, 170.0, 200.0, 350.0, 5.0]), [0, 180, 360]), {'buffer_width': 15})
    m['transitions'] = lambda: (disorder.transitions, (np.array([[0, 1, 1], [2, 2, 2]]),), {})
    # zero rows / never-visited states (masked divisions), float counts
    Cz = lambda: np.array([[1, 1, 0, 0], [0, 0, 0, 0], [1, 0, 2, 0], [0, 0, 0, 0]])
    m['builder_normalize_zero_rows'] = lambda: (builders.normalize, (Cz(),), {'calculate_eq_probs': False})
    m['builder_transpose_zero_rows'] = lambda: (builders.transpose, (Cz(),), {})
    m['builder_normalize_zero_rows_csr'] = lambda: (builders.normalize, (sp.csr_matrix(Cz().astype(float)),), {'calculate_eq_probs': False})
    m['trim_inplace'] = lambda: (tm.trim_disconnected, (np.array([[2, 1, 0], [1, 2, 0], [0, 1, 5]]),), {'renumber_states': False})
    # index arrays (with negative entries) are arguments too
    m['ra_getitem_index_arrays'] = lambda: ((lambda a, r, c: a[(r, c)]), (A(), np.array([-1, 0]), np.array([0, -1])), {})
    m['ra_getitem_0d_index'] = lambda: ((lambda a, r, c: a[(r, c)]), (A(), np.array(-1), np.array(-1)), {})
    m['ra_setitem_index_arrays'] = lambda: (_ra_set, (np.array([-1, 0]), np.array([0, -2])), {})
    m['ra_getitem_rowarray'] = lambda: ((lambda a, r: a[r]), (A(), np.array([-1, 0])), {})
    m['partition_indices_ndarray'] = lambda: (ra.partition_indices, (np.array([4, 0, 2]), [2, 3]), {})
    m['cluster_partition'] = lambda: ((lambda r, L: r.partition(L)), (cu.ClusterResult(center_indices=np.array([3, 0]), distances=np.arange(5.0),
                                                                                         assignments=np.array([0, 0, 1, 1, 1]), centers=[1, 2]), [2, 3]), {})
    m['reactive_populations_given'] = lambda: (tpt.reactive_populations, (np.asfortranarray(T()), [0], [2]), {'populations': np.array([0.25, 0.5, 0.25])})
    # remaining public routines of the information-theory / MSM / CARDS modules
    from enspara.msm import timescales
    Msym = lambda: np.array([[0.7, 0.2, 0.1], [0.2, 0.9, 0.3], [0.1, 0.3, 0.8]])
    m['mi_to_nmi'] = lambda: (mi.mi_to_nmi, (Msym(),), {})
    m['mi_to_apc'] = lambda: (mi.mi_to_apc, (Msym(),), {})
    m['mi_to_nmi_apc'] = lambda: (mi.mi_to_nmi_apc, (Msym(),), {'H_marginal': np.array([0.9, 1.0, 1.1])})
    m['deconvolute_network'] = lambda: (mi.deconvolute_network, (Msym() / 4,), {})
    m['mi_matrix_serial'] = lambda: (mi.mi_matrix_serial, ([F(), F()[::-1].copy()], [F(), F()], [2, 3], [2, 3]), {'normalize': False})
    m['relative_entropy_per_state'] = lambda: (ent.relative_entropy_per_state, (T(), np.array([[0.4, 0.6, 0.0], [0.3, 0.4, 0.3], [0.1, 0.4, 0.5]])), {})
    m['relative_entropy_msm'] = lambda: (ent.relative_entropy_msm, (T(), np.array([[0.4, 0.5, 0.1], [0.3, 0.4, 0.3], [0.1, 0.4, 0.5]])),
                                         {'populations': np.array([0.25, 0.5, 0.25])})
    m['relative_entropy_msm_eq'] = lambda: (ent.relative_entropy_msm, (T(), np.array([[0.4, 0.5, 0.1], [0.3, 0.4, 0.3], [0.1, 0.4, 0.5]])), {})
    m['Q_from_assignments'] = lambda: (ent.Q_from_assignments, (ra.RaggedArray([[0, 1, 1, 2], [2, 0, 1]]),), {'n_states': 3})
    m['energy_to_probability'] = lambda: (ent.energy_to_probability, (np.array([0.0, 1.5, 3.0]),), {})
    m['implied_timescales'] = lambda: (timescales.implied_timescales, (ra.RaggedArray([[0, 1, 1, 2, 0, 1], [2, 0, 1, 2, 2]]), [1, 2], builders.transpose),
                                       {'n_times': 2})
    # sparse matrices with >= 1000 states take the ARPACK path
    m['eigenspectrum_sparse_1000'] = lambda: (tm.eigenspectrum, (_big_sparse(),), {'n_eigs': 3})
    m['eq_probs_sparse_1000'] = lambda: (tm.eq_probs, (_big_sparse(),), {})
    m['ra_save_load'] = _save_load
    m['load_as_concatenated'] = _bulk_load
    return m


def _ra_set(r, c):
    from enspara import ra
    a = ra.RaggedArray([np.array([1, 2, 3]), np.array([4, 5])])
    a[(r, c)] = 9
    return a


def _big_sparse():
    import scipy.sparse as sp
    from .c16 import big_chain
    return sp.csr_matrix(big_chain(1000, 0.25, 0.5))


HEAVY = ('eigenspectrum_sparse_1000', 'eq_probs_sparse_1000')


def _save_load():
    from enspara import ra
    import tempfile
    import shutil

    def f(a):
        tmp = tempfile.mkdtemp(prefix='vfc19-')
        try:
            fn = os.path.join(tmp, 'a.h5')
            ra.save(fn, a)
            return ra.load(fn, stride=2)
        finally:
            shutil.rmtree(tmp, ignore_errors=True)
    return f, (ra.RaggedArray([np.array([1.5, 2.5, 3.5]), np.array([4.5])]),), {}


def _bulk_load():
    import tempfile
    import shutil
    from .c15 import write_files
    from .. import simpool

    def f(lengths):
        from enspara.util import load
        tmp = tempfile.mkdtemp(prefix='vfc19b-')
        try:
            files, top = write_files(tmp, lengths, 'xtc')
            with simpool.installed() as S:
                S.reset([1])
                L, xyz = load.load_as_concatenated(files, processes=2, top=top)
            return list(L), xyz
        finally:
            shutil.rmtree(tmp, ignore_errors=True)
    return f, ([2, 1, 3],), {}


CORE = ('shannon_entropy_zero', 'mutual_information_zero_block', 'builder_mle', 'builder_transpose_csr_prior', 'eigenspectrum',
        'committors_csr', 'paths', 'kmedoids', 'hybrid', 'euclidean', 'joint_counts', 'ra_getitem_2d')


# ---------------------------------------------------------------- canonical forms

def canon(x, h=None):
    top = h is None
    if top:
        h = hashlib.blake2b(digest_size=16)
    import scipy.sparse as sp
    if isinstance(x, np.ndarray):
        if x.dtype == object:
            h.update(b'objarr%d' % len(x))
            for v in x.ravel():
                canon(v, h)
        else:
            h.update(('nd:%s:%s:' % (x.dtype.str, x.shape)).encode())
            h.update(np.ascontiguousarray(x).tobytes())
    elif sp.issparse(x):
        h.update(('sp:%s:' % x.format).encode())
        canon(np.asarray(x.toarray()), h)
    elif hasattr(x, '_data') and hasattr(x, 'lengths'):
        h.update(b'ra:')
        canon(np.asarray(x.lengths), h)
        canon(np.asarray(x._data), h)
    elif hasattr(x, 'to_original'):
        h.update(repr(sorted((int(k), int(v)) for k, v in x.to_original.items())).encode())
    elif isinstance(x, (list, tuple)):
        h.update(('seq%d:' % len(x)).encode())
        for v in x:
            canon(v, h)
    elif isinstance(x, dict):
        for k in sorted(x):
            h.update(repr(k).encode())
            canon(x[k], h)
    elif isinstance(x, (float, np.floating)):
        h.update(b'f:' + np.float64(x).tobytes())
    elif isinstance(x, (int, np.integer, bool, np.bool_)):
        h.update(('i:%d' % int(x)).encode())
    elif x is None:
        h.update(b'None')
    else:
        h.update(repr(x).encode())
    if top:
        return h.hexdigest()


def show(x):
    try:
        import scipy.sparse as sp
        if sp.issparse(x):
            return repr(x.toarray().tolist())
        if hasattr(x, '_data') and hasattr(x, 'lengths'):
            return 'RA%r' % ([np.asarray(r).tolist() for r in x],)
        if isinstance(x, np.ndarray):
            return repr(x.tolist())
        if isinstance(x, (list, tuple)):
            return '[' + ', '.join(show(v) for v in x) + ']'
        return repr(x)
    except Exception:
        return '<unprintable>'


def globals_fingerprint():
    h = hashlib.blake2b(digest_size=8)
    for name in sorted(sys.modules):
        if not (name == 'enspara' or name.startswith('enspara.')):
            continue
        mod = sys.modules[name]
        for k in sorted(vars(mod)):
            v = vars(mod)[k]
            if isinstance(v, (list, dict, set)):
                h.update(('%s.%s=%r' % (name, k, v)).encode()[:2000])
            elif isinstance(v, np.ndarray):
                h.update(('%s.%s=' % (name, k)).encode() + v.tobytes()[:2000])
    return h.hexdigest()


# ---------------------------------------------------------------- child execution

def run_history(names, word, threads):
    """executed inside a forked child: returns list of per-call records + state fingerprint"""
    from .. import sched
    menu = _menu()
    poison = build.load_poison()
    poison.install(WORDS[word])
    T, order = threads
    for ext in EXTS:
        sched.config(ext, T, [99] * 4000 if order == 'rev' else [], -1)
    recs = []
    for nm in names:
        fn, args, kw = menu[nm]()
        m0 = poison.stats()[0]
        before = canon((args, kw))
        try:
            res = fn(*args, **kw)
            out = ('ok', canon(res), show(res)[:400])
        except Exception as e:
            out = ('raised', type(e).__name__, str(e)[:200])
        after = canon((args, kw))
        recs.append({'name': nm, 'out': out, 'args_changed': before != after, 'mallocs': poison.stats()[0] - m0})
    return recs, globals_fingerprint()


def in_child(fn):
    r, w = os.pipe()
    pid = os.fork()
    if pid == 0:
        try:
            os.close(r)
            try:
                out = ('ok', fn())
            except BaseException as e:
                import traceback
                out = ('raised', traceback.format_exc()[-1500:])
            with os.fdopen(w, 'wb') as f:
                f.write(pickle.dumps(out))
        finally:
            os._exit(0)
    os.close(w)
    with os.fdopen(r, 'rb') as f:
        data = f.read()
    _, status = os.waitpid(pid, 0)
    if os.WIFSIGNALED(status) or not data:
        return ('crashed', os.WTERMSIG(status) if os.WIFSIGNALED(status) else -1)
    return pickle.loads(data)


_REF = {}


def reference():
    """result of every routine from the pristine state (zero word, one thread)"""
    if not _REF:
        names = list(_menu())
        for nm in names:
            r = in_child(lambda nm=nm: run_history([nm], 'zero', (1, 'def')))
            if r[0] != 'ok':
                raise RuntimeError('reference run of %s failed: %r' % (nm, r))
            _REF[nm] = r[1][0][0]
    return _REF


def worker_init(tier, seed):
    # make sure enspara (all menu modules) is imported but nothing has been called
    _menu()


def check_history(case, ctx):
    names, word, threads = case['history'], case['word'], tuple(case['threads'])
    ref = reference()
    ctx.ev()
    r = in_child(lambda: run_history(names, word, threads))
    if r[0] != 'ok':
        ctx.violation('history:%s:%s' % (r[0], names[-1]), case, 'history %r under word %s threads %r: %r' % (names, word, threads, r))
        return
    recs, fp = r[1]
    ctx.guard('histories')
    alloc = recs[0]['mallocs'] > 0
    if alloc:
        ctx.guard('allocating_calls')
    ctx.state(('hist', fp, tuple(names), word, threads), nontrivial=alloc)
    for i, rec in enumerate(recs):
        want = ref[rec['name']]['out']
        pos = 'first' if i == 0 else 'after_history'
        if rec['args_changed']:
            ctx.violation('modifies_arguments:%s' % rec['name'], case, '%s modified an argument (history %r)' % (rec['name'], names))
        if rec['out'][:2] != want[:2]:
            why = []
            if word != 'zero':
                why.append('heap')
            if threads != (1, 'def'):
                why.append('threads')
            if i > 0:
                why.append('history')
            # attribute to the weakest sufficient cause: re-run alone with the same word/threads
            cause = 'heap' if word != 'zero' else ('threads' if threads != (1, 'def') else 'history')
            ctx.violation('depends_on_%s:%s' % (cause, rec['name']), case,
                          '%s returned %s under heap word %s, threads %r, after %r; from the pristine state it returns %s' % (
                              rec['name'], rec['out'][1:], word, threads, names[:i], want[1:]))


# ---------------------------------------------------------------- AST site scan

def where_sites():
    sites = []
    root = os.path.join(build.REPO, 'enspara')
    for dp, dn, fns in os.walk(root):
        if os.sep + 'test' in dp:
            continue
        for fn in fns:
            if not fn.endswith('.py'):
                continue
            path = os.path.join(dp, fn)
            try:
                tree = ast.parse(open(path).read())
            except SyntaxError:
                continue
            for node in ast.walk(tree):
                if isinstance(node, ast.Call):
                    kws = {k.arg for k in node.keywords}
                    if 'where' in kws and isinstance(node.func, ast.Attribute) and \
                            isinstance(node.func.value, ast.Name) and node.func.value.id in ('np', 'numpy'):
                        sites.append({'file': os.path.relpath(path, build.REPO), 'line': node.lineno, 'ufunc': node.func.attr,
                                      'has_out': 'out' in kws})
    return sites


SITE_MENU = {  # (file, ufunc) -> menu entries whose mask contains False
    ('enspara/info_theory/entropy.py', 'log'): ['shannon_entropy_zero', 'shannon_entropy_2d_zero'],
    ('enspara/info_theory/mutual_info.py', 'divide'): ['mutual_information_zero_block', 'weighted_mi'],
    ('enspara/info_theory/mutual_info.py', 'log'): ['weighted_mi'],
}


def check_sites(ctx):
    sites = where_sites()
    unmapped = []
    for s in sites:
        ctx.ev()
        ctx.state(('site', s['file'], s['line']))
        key = (s['file'], s['ufunc'])
        if key not in SITE_MENU:
            unmapped.append(s)
            continue
        ctx.guard('masked_with_false')
        for nm in SITE_MENU[key]:
            for word in WORDS:
                check_history({'kind': 'history', 'history': [nm], 'word': word, 'threads': [1, 'def']}, ctx)
    ctx.sample({'where_sites': sites, 'unmapped_sites': unmapped})
    ctx.extra['where_sites'] += len(sites)
    ctx.extra['where_sites_without_out'] += sum(1 for s in sites if not s['has_out'])
    ctx.extra['where_sites_unmapped'] += len(unmapped)


# ---------------------------------------------------------------- real thread counts

FREE = r'''
import sys, json, ctypes
sys.path.insert(0, %(verif)r)
from vf import build
build.install('omp')
import numpy as np
from vf.props import c19
gomp = ctypes.CDLL('libgomp.so.1')
menu = c19._menu()
out = {}
for t in (1, 2, 16):
    gomp.omp_set_num_threads(t)
    for nm in sorted(menu):
        fn, args, kw = menu[nm]()
        try:
            out['%%s@%%d' %% (nm, t)] = c19.canon(fn(*args, **kw))
        except Exception as e:
            out['%%s@%%d' %% (nm, t)] = 'raised:' + type(e).__name__
print('RESULT' + json.dumps(out))
import os; os._exit(0)
'''


def check_real_threads(ctx):
    env = dict(os.environ)
    env.pop('OMP_NUM_THREADS', None)
    p = subprocess.run([sys.executable, '-c', FREE % {'verif': build.VERIF}], capture_output=True, text=True, env=env,
                       timeout=600, cwd=build.VERIF)
    line = [l for l in p.stdout.splitlines() if l.startswith('RESULT')]
    if not line:
        raise RuntimeError('real-thread pass failed: %s' % p.stderr[-2000:])
    res = json.loads(line[0][6:])
    ref = reference()
    for t in (1, 2, 16):
        ctx.guard('real_threads')
        for nm in ref:
            ctx.ev()
            ctx.state(('real', nm, t))
            got = res['%s@%d' % (nm, t)]
            want = ref[nm]['out']
            w = want[1] if want[0] == 'ok' else 'raised:' + want[1]
            if got != w:
                ctx.violation('depends_on_threads:%s' % nm, {'kind': 'real_threads', 'routine': nm, 'threads': t},
                              '%s with %d real OpenMP threads differs from the single-thread pristine result' % (nm, t))
    ctx.sample({'kind': 'real_threads', 'threads': [1, 2, 16], 'routines': len(ref)})


# ---------------------------------------------------------------- shards

def shards(tier, seed):
    names = list(_menu_names())
    sh = [('pairs', tier, i) for i in range(len(names))]
    sh += [('threads', tier, 0), ('sites', tier, 0), ('real', tier, 0)]
    if tier == 'thorough':
        sh += [('triples', tier, i) for i in range(len(CORE))]
    return sh


def _menu_names():
    # static list (the parent process must not import enspara): keep in sync with _menu()
    return MENU_NAMES


MENU_NAMES = ['euclidean_wide', 'kcenters_wide', 'mi_to_nmi', 'mi_to_apc', 'mi_to_nmi_apc', 'deconvolute_network', 'mi_matrix_serial', 'relative_entropy_per_state',
              'relative_entropy_msm', 'relative_entropy_msm_eq', 'Q_from_assignments', 'energy_to_probability', 'implied_timescales',
              'builder_normalize_zero_rows', 'builder_transpose_zero_rows', 'builder_normalize_zero_rows_csr', 'trim_inplace',
              'ra_getitem_index_arrays', 'ra_getitem_0d_index', 'ra_setitem_index_arrays', 'ra_getitem_rowarray',
              'partition_indices_ndarray', 'cluster_partition', 'reactive_populations_given', 'eigenspectrum_sparse_1000',
              'eq_probs_sparse_1000', 'shannon_entropy_zero', 'shannon_entropy_2d_zero', 'shannon_entropy_pos', 'kl', 'js', 'mutual_information',
              'mutual_information_zero_block', 'mutual_information_full_block', 'kl_pos', 'paths_callable_inplace', 'joint_counts', 'weighted_mi', 'mi_matrix', 'ccn', 'builder_normalize',
              'builder_normalize_csr_prior', 'builder_transpose', 'builder_transpose_csr_prior', 'builder_mle',
              'builder_mle_csr_prior', 'assigns_to_counts', 'trim_disconnected', 'eigenspectrum', 'eq_probs_csr', 'committors',
              'committors_csr', 'mfpts_all', 'mfpts_sink', 'reactive_fluxes', 'net_fluxes_csr', 'reactive_populations', 'top_path',
              'paths', 'paths_bottleneck', 'synthetic_ensemble', 'assign_to_nearest_center', 'assign_to_nearest_center_nan_frame', 'find_cluster_centers', 'kcenters',
              'kcenters_radius_tri', 'kmedoids', 'hybrid', 'euclidean', 'manhattan_f', 'hamming', 'ra_add', 'ra_lt_scalar',
              'ra_getitem_2d', 'ra_where', 'rotamers', 'transitions', 'ra_save_load', 'load_as_concatenated']


def run_shard(sh, ctx):
    kind, tier, i = sh
    names = list(_menu())
    assert sorted(names) == sorted(MENU_NAMES), 'MENU_NAMES out of sync: %r' % (set(names) ^ set(MENU_NAMES))
    words = list(WORDS)
    if kind == 'pairs':
        first = names[i]
        for wi, second in enumerate(names):
            if (first in HEAVY or second in HEAVY) and first != second and not (second in HEAVY and wi % 9 == i % 9):
                continue        # the two ~1 s routines: repeated after themselves and after every 9th routine only
            # every ordered pair under two words (rotating through the alphabet) + the zero word
            for word in {'zero', words[(i + wi) % len(words)], words[(i + 2 * wi + 3) % len(words)]}:
                check_history({'kind': 'history', 'history': [first, second], 'word': word, 'threads': [1, 'def']}, ctx)
        for word in words:
            ctx.guard('poison_words')
            check_history({'kind': 'history', 'history': [first], 'word': word, 'threads': [1, 'def']}, ctx)
        # alternating words within one history
        ctx.sample({'kind': 'history', 'history': [first, names[-1]], 'word': words[i % len(words)], 'threads': [1, 'def']})
    elif kind == 'threads':
        for T in (1, 2, 3):
            for order in ('def', 'rev'):
                ctx.guard('thread_settings')
                for nm in names:
                    if nm in HEAVY and order == 'rev':
                        continue
                    for word in ('zero', 'nan'):
                        check_history({'kind': 'history', 'history': [nm], 'word': word, 'threads': [T, order]}, ctx)
        ctx.sample({'kind': 'history', 'history': ['kcenters'], 'word': 'nan', 'threads': [3, 'rev']})
    elif kind == 'triples':
        a = CORE[i]
        for b in CORE:
            for c in CORE:
                check_history({'kind': 'history', 'history': [a, b, c], 'word': words[(i + len(b) + len(c)) % len(words)],
                               'threads': [1, 'def']}, ctx)
    elif kind == 'sites':
        check_sites(ctx)
    else:
        check_real_threads(ctx)


def replay(case, ctx):
    if case.get('kind') == 'real_threads':
        check_real_threads(ctx)
    else:
        check_history(case, ctx)
