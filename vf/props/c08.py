"""C08 - reactive flux obeys its definition and is conserved.

E1: all reversible chains T = X/rowsum(X), pi = rowsum/sum from connected symmetric integer X
(n=3 entries {0,1,2}; n=4 entries {0,1}, T: {0,1,2}) x all disjoint (A,B) x populations given/omitted
x containers.  Oracle: definition + Kirchhoff conservation, q from an independent dense solve.
"""
import itertools

import numpy as np
import scipy.sparse as sp

from ..models import msmref as mr
from ..models import tptref as tr

ID = 'C08'
RULE = ('reversible chains from all connected symmetric integer matrices: n=3 over {0,1,2} (729 candidates), n=4 over {0,1} and (sampled) over {0,1,1e-5} - rare routes with fluxes down to 1e-12 - '
        '(T: {0,1,2} every 3rd) x all disjoint non-empty (sources,sinks) x populations {given, computed} x containers '
        '{ndarray (C, Fortran-ordered, transposed view, strided view), csr,csc,coo,lil} (non-C containers on every 2nd chain in Q); call histories: two chains through one caller-owned work matrix (ndarray, csr) refilled in place between the calls, all results held and read after the last call; state=(X,A,B,pops,container); non-trivial = >=1 '
        'intermediate state carrying non-zero reactive density')
ASSUMPTIONS = ['reactive populations are only compared when the total reactive density sum(pi q+ q-) exceeds 1e-10 (below that the normalised density is round-off in every floating-point implementation); tolerance 1e-9 + 1e-14/sum',
               'flux identities are compared entrywise at 1e-6 relative + 1e-14 absolute (round-off level of the committor solve; not a fraction of the largest flux)',
               'the probability-vector clause for reactive populations is asserted only when sum(pi q+ q-) > 0; '
               'when every committor is 0 or 1 the reactive density is identically zero and the quantity is undefined (0/0)']
GUARDS = {'history': 500, 'wide_range_weights': 100, 'intermediate_flux': 500, 'undefined_density': 100, 'sparse': 500, 'dense_layouts': 200, 'pops_computed': 500, 'multi': 500}
NSH = {'quick': 48, 'thorough': 1536}
CONTAINERS = ('ndarray', 'ndarrayF', 'ndarrayT', 'ndarrayS', 'csr', 'csc', 'coo', 'lil')


def sym_matrices(n, values):
    iu = [(i, j) for i in range(n) for j in range(i, n)]
    for t in itertools.product(values, repeat=len(iu)):
        X = np.zeros((n, n), dtype=(float if any(isinstance(v, float) for v in values) else int))
        for (i, j), v in zip(iu, t):
            X[i, j] = X[j, i] = v
        yield X


def chains(tier):
    out = []
    for X in sym_matrices(3, (0, 1, 2)):
        if mr.strongly_connected(X):
            out.append(X)
    # weights spanning many orders of magnitude: rare side routes carry fluxes of 1e-9 .. 1e-12
    k = 0
    for X in sym_matrices(4, (0, 1, 1e-5)):
        if mr.strongly_connected(X) and (X == 1e-5).any() and (X == 1).any():
            k += 1
            if k % (193 if tier == 'quick' else 5) == 0:
                out.append(X)
    k = 0
    vals = (0, 1) if tier == 'quick' else (0, 1, 2)
    for X in sym_matrices(4, vals):
        if mr.strongly_connected(X):
            k += 1
            if tier == 'quick' or k % 3 == 0 or X.max() < 2:
                out.append(X)
    return out


def shards(tier, seed):
    return [(tier, i) for i in range(NSH[tier])] + [('hist', tier, i) for i in range(8)]


def wrap(T, cont):
    if cont == 'ndarray':
        return T.copy()
    if cont == 'ndarrayF':
        return np.asfortranarray(T)
    if cont == 'ndarrayT':
        return np.ascontiguousarray(T.T).T            # transposed view (Fortran strides, does not own its data)
    if cont == 'ndarrayS':
        base = np.zeros((2 * len(T), 2 * len(T)))
        base[::2, ::2] = T
        return base[::2, ::2]                          # non-contiguous strided view
    return getattr(sp, cont + '_matrix')(T)


def close(got, want, net=False):
    """entrywise: |got-want| <= 1e-6*|want| + 1e-14.  The absolute term is the round-off level of the committor solve
    (q in [0,1], pi_i T_ij <= 1), NOT a fraction of the largest flux: a rare route carrying 1e-11 next to a main route
    carrying 1e-2 must not be lost, while a 1e-17 residue on an edge whose exact flux is 0 is not a violation."""
    return bool((np.abs(got - want) <= 1e-6 * np.abs(want) + 1e-14).all())


def check_case(case, ctx, pairs=None):
    from enspara import tpt
    X = np.array(case['X'], float)
    cont = case['container']
    n = len(X)
    if X.max() > 0 and X[X > 0].min() < 1e-3:
        ctx.guard('wide_range_weights')
    T = X / X.sum(axis=1, keepdims=True)
    pi = X.sum(axis=1) / X.sum()
    M = wrap(T, cont)
    ctag = 'dense' if cont.startswith('ndarray') else 'sparse'
    before = mr.to_dense(M).copy()
    for A, B in (pairs if pairs is not None else [(case['A'], case['B'])]):
        q = tr.committor_ref(T, A, B)
        dens = pi * q * (1 - q)
        inter = [i for i in range(n) if i not in A and i not in B]
        for given in (True, False):
            ctx.ev()
            c = dict(case, A=A, B=B, pops_given=given)
            ctx.state((X.tobytes(), n, cont, tuple(A), tuple(B), given), nontrivial=bool(dens.sum() > 1e-12))
            if not cont.startswith('ndarray'):
                ctx.guard('sparse')
            elif cont != 'ndarray':
                ctx.guard('dense_layouts')
            if not given:
                ctx.guard('pops_computed')
            if len(A) > 1 or len(B) > 1:
                ctx.guard('multi')
            pops = pi.copy() if given else None
            # --- reactive flux: definition
            want = pi[:, None] * (1 - q)[:, None] * T * q[None, :]
            np.fill_diagonal(want, 0.0)
            try:
                f = mr.to_dense(tpt.reactive_fluxes(M, A, B, populations=pops)).astype(float)
                if f.shape != (n, n) or not close(f, want):
                    ctx.violation('reactive_fluxes:definition:%s' % ctag, c, 'flux %r want %r (%r)' % (f.tolist(), want.tolist(), c))
            except Exception as e:
                ctx.violation('reactive_fluxes:raises:%s:%s' % (ctag, type(e).__name__), c, 'raised %r on %r' % (e, c))
            # --- net flux
            wnet = np.maximum(want - want.T, 0)
            try:
                g = mr.to_dense(tpt.net_fluxes(M, A, B, populations=pops)).astype(float)
                if g.shape != (n, n) or not close(g, wnet, net=True):
                    ctx.violation('net_fluxes:definition:%s' % ctag, c, 'net %r want %r (%r)' % (g.tolist(), wnet.tolist(), c))
                else:
                    if (g < 0).any() or ((g > 1e-14) & (g.T > 1e-14)).any():
                        ctx.violation('net_fluxes:both_directions', c, 'net flux in both directions of a pair: %r' % g.tolist())
                    for i in inter:
                        if abs(g[:, i].sum() - g[i].sum()) > 1e-6 * max(g[:, i].sum(), g[i].sum()) + 1e-14:
                            ctx.violation('net_fluxes:kirchhoff', c, 'state %d: in %g out %g (%r)' % (i, g[:, i].sum(), g[i].sum(), c))
                            break
                    if inter and g[inter].sum() > 1e-12:
                        ctx.guard('intermediate_flux')
                    if np.abs(g[:, A]).max() > 1e-14 or np.abs(g[B]).max() > 1e-14:
                        ctx.violation('net_fluxes:boundary', c, 'flux into sources or out of sinks: %r' % g.tolist())
                    if abs(g[A].sum() - g[:, B].sum()) > 1e-6 * g[A].sum() + 1e-14:
                        ctx.violation('net_fluxes:total', c, 'outflow(A) %g != inflow(B) %g' % (g[A].sum(), g[:, B].sum()))
            except Exception as e:
                ctx.violation('net_fluxes:raises:%s:%s' % (ctag, type(e).__name__), c, 'raised %r on %r' % (e, c))
            # --- reactive populations
            try:
                rp = np.asarray(tpt.reactive_populations(M, A, B, populations=pops)).astype(float).ravel()
                # the normalisation divides by sum(pi q+ q-): round-off of the committors (1e-16 in q, hence in 1-q) is
                # amplified by 1/sum; below 1e-10 the normalised density is dominated by round-off in ANY implementation
                # (the reference included) and the statement's 'all chains' cannot be decided in floating point
                if dens.sum() > 1e-10:
                    wantp = dens / dens.sum()
                    ptol = 1e-9 + 1e-14 / dens.sum()
                    if rp.shape != (n,) or np.abs(rp - wantp).max() > ptol or rp.min() < -ptol or abs(rp.sum() - 1) > 1e-9 \
                            or np.abs(rp[A + B]).max() > 1e-9:
                        ctx.violation('reactive_populations:value:%s' % ctag, c, 'got %r want %r (%r)' % (rp.tolist(), wantp.tolist(), c))
                else:
                    ctx.guard('undefined_density')
            except Exception as e:
                ctx.violation('reactive_populations:raises:%s:%s' % (ctag, type(e).__name__), c, 'raised %r on %r' % (e, c))
            if pops is not None and not np.array_equal(pops, pi):
                ctx.violation('tpt:mutates_populations', c, 'populations modified')
    if not np.array_equal(mr.to_dense(M), before):
        ctx.violation('tpt:mutates_input:%s' % cont, case, 'transition matrix modified')


def refs(X, A, B):
    T = X / X.sum(axis=1, keepdims=True)
    pi = X.sum(axis=1) / X.sum()
    q = tr.committor_ref(T, A, B)
    want = pi[:, None] * (1 - q)[:, None] * T * q[None, :]
    np.fill_diagonal(want, 0.0)
    dens = pi * q * (1 - q)
    return T, want, np.maximum(want - want.T, 0), dens


def check_history(case, ctx):
    """two chains through ONE caller-owned work matrix that is refilled in place between the calls; every result is held
    and read only at the end: each must still be the flux of the chain and state sets it was computed for"""
    from enspara import tpt
    X1, X2 = np.array(case['X1'], float), np.array(case['X2'], float)
    A1, B1, A2, B2 = case['A1'], case['B1'], case['A2'], case['B2']
    cont = case['container']
    ctx.ev()
    ctx.guard('history')
    ctx.state(('hist', X1.tobytes(), X2.tobytes(), cont, tuple(A1), tuple(B1), tuple(A2), tuple(B2)), nontrivial=True)
    T1, w1, n1, d1 = refs(X1, A1, B1)
    T2, w2, n2, d2 = refs(X2, A2, B2)
    try:
        if cont == 'ndarray':
            work = T1.copy()
        else:
            work = sp.csr_matrix(T1)
            nxt = sp.csr_matrix(T2)
            if not (np.array_equal(work.indices, nxt.indices) and np.array_equal(work.indptr, nxt.indptr)):
                return
        held = [('reactive_fluxes#1', tpt.reactive_fluxes(work, A1, B1), w1), ('net_fluxes#1', tpt.net_fluxes(work, A1, B1), n1)]
        p1 = tpt.reactive_populations(work, A1, B1) if d1.sum() > 1e-10 else None
        if cont == 'ndarray':
            work[:, :] = T2
        else:
            work.data[:] = nxt.data
        held += [('reactive_fluxes#2', tpt.reactive_fluxes(work, A2, B2), w2), ('net_fluxes#2', tpt.net_fluxes(work, A2, B2), n2)]
        p2 = tpt.reactive_populations(work, A2, B2) if d2.sum() > 1e-10 else None
        held += [('reactive_fluxes#3', tpt.reactive_fluxes(work, A1, B1), refs(X2, A1, B1)[1])]
    except Exception as e:
        ctx.violation('history:raises:%s' % type(e).__name__, case, 'raised %r on %r' % (e, case))
        return
    for name, got, want in held:
        g = mr.to_dense(got).astype(float)
        if g.shape != want.shape or not close(g, want):
            which = 'earlier_result_changed' if name.endswith('#1') else 'later_call_uses_stale_data'
            ctx.violation('history:%s:%s' % (which, 'dense' if cont == 'ndarray' else 'sparse'), case,
                          '%s read after all calls is %r, its own definition gives %r (%r)' % (name, g.tolist(), want.tolist(), case))
            return
    for name, rp, dens in (('reactive_populations#1', p1, d1), ('reactive_populations#2', p2, d2)):
        if rp is not None:
            rp = np.asarray(rp).astype(float).ravel()
            wantp = dens / dens.sum()
            if np.abs(rp - wantp).max() > 1e-9 + 1e-14 / dens.sum():
                ctx.violation('history:populations:%s' % ('dense' if cont == 'ndarray' else 'sparse'), case, '%s %r want %r' % (name, rp.tolist(), wantp.tolist()))
                return


def run_shard(sh, ctx):
    if sh[0] == 'hist':
        _, tier, i = sh
        cs = [X for X in chains(tier)]
        by_n = {}
        for X in cs:
            by_n.setdefault(len(X), []).append(X)
        k = 0
        for n, lst in sorted(by_n.items()):
            pairs = tr.ab_pairs(n)
            step = 7 if tier == 'quick' else 2
            for a in range(0, len(lst) - 1, step):
                X1, X2 = lst[a], lst[(a * 3 + 1) % len(lst)]
                for pi_, (A1, B1) in enumerate(pairs):
                    A2, B2 = pairs[(pi_ * 5 + 2) % len(pairs)]
                    k += 1
                    if k % 8 != i:
                        continue
                    for cont in ('ndarray', 'csr'):
                        c = {'kind': 'hist', 'X1': X1.tolist(), 'X2': X2.tolist(), 'A1': A1, 'B1': B1, 'A2': A2, 'B2': B2, 'container': cont}
                        check_history(c, ctx)
        ctx.sample(c)
        return
    tier, i = sh
    cs = chains(tier)
    for j in range(i, len(cs), NSH[tier]):
        X = cs[j]
        pairs = tr.ab_pairs(len(X))
        for cont in CONTAINERS:
            if tier == 'quick' and cont != 'ndarray':
                jj = j // NSH[tier]
                if jj % 2 or (cont in ('csc', 'coo', 'ndarrayS') and jj % 4):
                    continue
            check_case({'X': X.tolist(), 'container': cont}, ctx, pairs=pairs)
        if j % 97 == 0:
            ctx.sample({'X': X.tolist(), 'container': cont, 'A': pairs[0][0], 'B': pairs[0][1]})


def replay(case, ctx):
    if case.get('kind') == 'hist':
        return check_history(case, ctx)
    if 'A' in case:
        check_case(case, ctx)
    else:
        check_case(case, ctx, pairs=tr.ab_pairs(len(case['X'])))
