"""C02 - k-centers greedy rule, monotone radius, exact stopping, 2-approximation, shortcut equivalence.

E1: data sets x triangle metrics x every (n_clusters, dist_cutoff) stopping combination with
cutoffs placed at r-eps, r, r+eps around *every* greedy radius of that data set x init_centers
(none, every greedy prefix, every other <=3-subset) x shortcut on/off.
Oracle: independent replay of Gonzalez' rule on the reported index sequence.
"""
import itertools

import numpy as np

from ..models import clusterref as cr

ID = 'C02'
RULE = ('data sets as C01 (Q: 1-D {0,1,2,4,7} n<=4, 2-D 3x2 n<=3, sampled 5-point 1-D; T: 1-D {0..6} n<=5, 2-D 3x3 n<=4) x '
        'metrics {euclidean, manhattan, callable chebyshev} x dtypes {f8,i4,f4} x n_clusters {None,1..n,n+1} x '
        'dist_cutoff {None,0} u {r-eps,r,r+eps : r greedy radius} x init_centers {none, every <=3-subset of frames (Q: increasing order + reversed pairs; T: every order) - this includes every greedy prefix; and initial centers that are NOT frames: 1-2 coordinates from a 5-point menu, each owning >=1 frame, on every 12th data set (T: every 3rd, all orders)} '
        'x use_triangle_inequality {F,T}; state=(data,metric,dtype,stop rule,init,shortcut); '
        'non-trivial = run that added >=1 greedy center and stopped before exhausting the data')
ASSUMPTIONS = ['ties for the farthest frame may be broken arbitrarily: the oracle accepts any maximiser',
               '2-approximation is asserted for cold starts only, against the brute-force optimum over frame subsets',
               'eps = 1e-6 separates > from >= (distances are sqrt of small integers, gaps >> eps)']
GUARDS = {'off_frame_init': 200, 'stop_by_count': 500, 'stop_by_radius': 500, 'zero_iterations': 500, 'ties': 500, 'shortcut_on': 500,
          'both_criteria': 500}
EPS = 1e-6
METRICS = ('euclidean', 'manhattan', 'chebyshev')
DTYPES = ('float64', 'int32', 'float32')
NSH = {'quick': 64, 'thorough': 512}


def datasets(tier):
    out = []
    if tier == 'quick':
        out += [t for t in cr.lattice_sets([0, 1, 2, 4, 7], 4)]
        out += [t for t in cr.lattice_sets(cr.grid((3, 2)), 3)]
        out += [t for t in cr.lattice_sets([(0, 0), (2, 0), (0, 1), (1, 2)], 4, 4)]
        for sub in list(itertools.combinations(range(7), 5))[::3]:
            for first in sub:
                out.append((first,) + tuple(x for x in sub if x != first))
    else:
        out += [t for t in cr.lattice_sets(range(7), 5)]
        out += [t for t in cr.lattice_sets(cr.grid((3, 3)), 4)]
    return out


def shards(tier, seed):
    return [(tier, i) for i in range(NSH[tier])]


def greedy_radii(D, start):
    """radii of one greedy run from the start set (ties -> first), used only to place cutoffs"""
    n = D.shape[0]
    cur = D[list(start)].min(axis=0)
    radii = [cur.max()]
    for _ in range(n - len(start)):
        j = int(np.argmax(cur))
        cur = np.minimum(cur, D[j])
        radii.append(cur.max())
    return radii


def opt_radius(D, k):
    n = D.shape[0]
    best = np.inf
    for sub in itertools.combinations(range(n), k):
        r = D[list(sub)].min(axis=0).max()
        best = min(best, r)
    return best


def call(X, metric, ncl, cut, init, tri):
    from enspara.cluster import kcenters as kc
    kw = {}
    if ncl != 'default':
        kw['n_clusters'] = ncl
    if cut != 'default':
        kw['dist_cutoff'] = cut
    if init is not None:
        kw['init_centers'] = X[list(init)].copy()
    return kc.kcenters(X, cr.impl_metric(metric), use_triangle_inequality=tri, **kw)


def check_case(case, ctx, cache=None):
    pts, dtype, metric = case['pts'], case['dtype'], case['metric']
    ncl, cut, init, tri = case['ncl'], case['cut'], case['init'], case['tri']
    X = cr.as_array([tuple(q) if isinstance(q, (list, tuple)) else q for q in pts], dtype)
    n = len(X)
    D = cr.dist_matrix(X, metric)
    ctx.ev()
    key = (tuple(map(tuple, X.tolist())), dtype, metric, repr(ncl), repr(cut), repr(init), tri)
    nmax = np.inf if ncl in ('default', None) else ncl
    cmin = 0 if cut in ('default', None) else cut
    try:
        res = call(X, metric, ncl, cut, init, tri)
    except Exception as e:
        ctx.state(key)
        ctx.violation('kcenters:raises:%s' % type(e).__name__, case, 'kcenters raised %r on %r' % (e, case))
        return
    bad = cr.check_result(X, D, res)
    for clause, msg in bad:
        ctx.violation('kcenters:consistency:%s' % clause, case, msg)
    if bad:
        ctx.state(key)
        return
    ci = [int(c) for c in res.center_indices]
    k = len(ci)
    k0 = 0 if init is None else len(init)
    # starting point
    if init is None:
        if ci[0] != 0:
            ctx.violation('kcenters:first_center', case, 'first center is frame %d, not frame 0' % ci[0])
    else:
        if ci[:k0] != list(init):
            ctx.violation('kcenters:init_prefix', case, 'centers %r do not start with the supplied init frames %r' % (ci, init))
    # replay Gonzalez on the reported sequence
    start = 1 if init is None else k0
    cur = D[ci[:start]].min(axis=0)
    radii = [cur.max()]
    tie = False
    for j in range(start, k):
        mx = cur.max()
        if cur[ci[j]] < mx - cr.TOL:
            ctx.violation('kcenters:not_farthest', case,
                          'center #%d = frame %d at distance %.6g from chosen centers, but frame %d is at %.6g (%r)' % (
                              j, ci[j], cur[ci[j]], int(cur.argmax()), mx, case))
            ctx.state(key)
            return
        if (np.abs(cur - mx) <= cr.TOL).sum() > 1:
            tie = True
        cur = np.minimum(cur, D[ci[j]])
        radii.append(cur.max())
    if tie:
        ctx.guard('ties')
    if any(radii[i + 1] > radii[i] + cr.TOL for i in range(len(radii) - 1)):
        ctx.violation('kcenters:radius_grows', case, 'radii %r' % (radii,))
    if abs(np.max(res.distances) - radii[-1]) > cr.TOL:
        ctx.violation('kcenters:final_radius', case, 'max distance %r vs replay radius %r' % (np.max(res.distances), radii[-1]))
    # exact stopping: radii[i] is the radius with (start+i) centers
    def cont(cnt, r):
        return cnt < nmax and r > cmin
    for i, r in enumerate(radii[:-1]):
        if not cont(start + i, r):
            why = 'count' if not (start + i < nmax) else 'radius'
            ctx.violation('kcenters:stops_late:%s' % why, case,
                          'added a center although stop rule held with %d centers, radius %.9g (n_clusters=%r cutoff=%r)' % (
                              start + i, r, ncl, cut))
            break
    if init is None or k > k0:
        if cont(k, radii[-1]):
            why = 'radius' if k >= n else ('count' if radii[-1] > cmin else 'radius')
            ctx.violation('kcenters:stops_early', case,
                          'stopped with %d centers, radius %.9g although n_clusters=%r cutoff=%r allow more' % (
                              k, radii[-1], ncl, cut))
    else:
        # zero greedy iterations with init centers: the rule must already hold
        ctx.guard('zero_iterations')
        if cont(k, radii[-1]):
            ctx.violation('kcenters:stops_early', case, 'no center added although allowed (%r)' % (case,))
    if k == nmax:
        ctx.guard('stop_by_count')
    if radii[-1] <= cmin and k < nmax:
        ctx.guard('stop_by_radius')
    if ncl not in ('default', None) and cut not in ('default', None, 0):
        ctx.guard('both_criteria')
    # 2-approximation (cold start)
    if init is None and metric in METRICS:
        opt = opt_radius(D, k)
        if radii[-1] > 2 * opt + cr.TOL:
            ctx.violation('kcenters:two_approx', case, 'radius %.6g > 2*OPT(%d)=%.6g' % (radii[-1], k, 2 * opt))
    # shortcut must agree with the plain algorithm
    if tri:
        ctx.guard('shortcut_on')
        try:
            plain = call(X, metric, ncl, cut, init, False)
            same = ([int(c) for c in plain.center_indices] == ci
                    and np.array_equal(plain.assignments, res.assignments)
                    and np.array_equal(plain.distances, res.distances))
            if not same:
                ctx.violation('kcenters:shortcut_differs', case,
                              'triangle shortcut: centers %r labels %r dist %r; plain: %r %r %r' % (
                                  ci, res.assignments.tolist(), res.distances.tolist(),
                                  list(plain.center_indices), plain.assignments.tolist(), plain.distances.tolist()))
        except Exception:
            pass
    ctx.state(key, nontrivial=(k > start and k < n))


def check_offframe(case, ctx):
    """initial centers that are NOT frames of the data (legal; the library's own hot-start test uses them): distances are
    measured to the supplied coordinates, every further center is the farthest frame at that moment, the stop rule is exact"""
    from enspara.cluster import kcenters as kc
    pts, metric, coords, ncl, cut, tri = case['pts'], case['metric'], case['coords'], case['ncl'], case['cut'], case['tri']
    X = cr.as_array([tuple(q) if isinstance(q, (list, tuple)) else q for q in pts], 'float64')
    C0 = cr.as_array([tuple(q) if isinstance(q, (list, tuple)) else q for q in coords], 'float64')
    n, k0 = len(X), len(C0)
    m = cr.np_metric(metric)
    ctx.ev()
    ctx.guard('off_frame_init')
    key = ('off', tuple(map(tuple, X.tolist())), metric, tuple(map(tuple, C0.tolist())), repr(ncl), repr(cut), tri)
    kw = {}
    if ncl is not None:
        kw['n_clusters'] = ncl
    if cut is not None:
        kw['dist_cutoff'] = cut
    nmax = np.inf if ncl is None else ncl
    cmin = 0 if cut is None else cut
    keep = C0.copy()
    try:
        res = kc.kcenters(X, cr.impl_metric(metric), init_centers=C0, use_triangle_inequality=tri, **kw)
    except Exception as e:
        ctx.state(key)
        ctx.violation('kcenters_offframe:raises:%s' % type(e).__name__, case, 'kcenters raised %r on %r' % (e, case))
        return
    if not np.array_equal(C0, keep):
        ctx.violation('kcenters_offframe:mutates_init', case, 'init_centers modified')
    cents = [np.atleast_1d(np.asarray(c, float)) for c in res.centers]
    k = len(cents)
    ctx.state(key, nontrivial=k > k0)
    if k < k0 or any(not np.array_equal(cents[i], C0[i]) for i in range(k0)):
        ctx.violation('kcenters_offframe:init_prefix', case, 'returned centers %r do not start with the supplied ones %r' % (
            [c.tolist() for c in cents], C0.tolist()))
        return
    Dc = np.array([m(X, c) for c in cents])          # (k, n) distances to the ACTUAL centers
    cur = Dc[:k0].min(axis=0)
    radii = [cur.max()]
    for j in range(k0, k):
        # every added center must be a frame of the data, and a farthest one
        hit = [f for f in range(n) if np.array_equal(X[f], cents[j])]
        if not hit:
            ctx.violation('kcenters_offframe:center_not_a_frame', case, 'added center %r is not a frame' % cents[j].tolist())
            return
        mx = cur.max()
        if max(cur[f] for f in hit) < mx - cr.TOL:
            ctx.violation('kcenters_offframe:not_farthest', case,
                          'center #%d = frame %r at distance %.6g from the centers so far, but frame %d is at %.6g (%r)' % (
                              j, hit, max(cur[f] for f in hit), int(cur.argmax()), mx, case))
            return
        cur = np.minimum(cur, Dc[j])
        radii.append(cur.max())
    lab, dist = np.asarray(res.assignments), np.asarray(res.distances, float)
    if lab.shape != (n,) or lab.min() < 0 or lab.max() >= k:
        ctx.violation('kcenters_offframe:labels', case, 'labels %r with %d centers' % (lab.tolist(), k))
        return
    if np.abs(dist - cur).max() > cr.TOL or np.abs(Dc[lab, np.arange(n)] - cur).max() > cr.TOL:
        ctx.violation('kcenters_offframe:distances', case, 'distances %r labels %r; minimal distances to the centers %r (%r)' % (
            dist.tolist(), lab.tolist(), cur.tolist(), case))
        return
    for i, r in enumerate(radii[:-1]):
        if not (k0 + i < nmax and r > cmin):
            ctx.violation('kcenters_offframe:stops_late', case, 'added a center although the stop rule held with %d centers, radius %.9g (%r)' % (k0 + i, r, case))
            return
    if k < nmax and radii[-1] > cmin and k - k0 < n:
        ctx.violation('kcenters_offframe:stops_early', case, 'stopped with %d centers, true covering radius %.9g (n_clusters=%r cutoff=%r)' % (
            k, radii[-1], ncl, cut))


def offframe_cases(pts, tier):
    one_d = not isinstance(pts[0], (tuple, list))
    if one_d:
        cands = [0.5, 2.5, -1, 9, 3.25]
    else:
        cands = [(0.5, 0.5), (1.5, 0), (-1, 0), (3, 2), (1, 0.25)]
    n = len(pts)
    out = []
    subs = [(c,) for c in cands[:3]] + [(cands[0], cands[3]), (cands[3], cands[1]), (cands[2], cands[4]), (cands[1], cands[0])]
    if tier == 'thorough':
        subs = [s_ for mm in (1, 2) for s_ in itertools.permutations(cands, mm)]
    for sub in subs:
        mm = len(sub)
        for ncl in (None, mm, mm + 1, n + mm):
            out.append((list(sub), ncl))
    return out


def stop_rules(n, radii):
    cuts = ['default', None, 0]
    for r in sorted(set(round(float(r), 12) for r in radii)):
        if r > 0:
            cuts += [r - EPS, r, r + EPS]
    ncls = ['default', None] + list(range(1, n + 2))
    for ncl in ncls:
        for cut in cuts:
            if ncl in ('default', None) and cut in ('default', None, 0):
                continue   # no stopping criterion at all: rejected by the API
            yield ncl, cut


def run_shard(sh, ctx):
    tier, i = sh
    ds = datasets(tier)
    for j in range(i, len(ds), NSH[tier]):
        pts = ds[j]
        n = len(pts)
        for metric in METRICS:
            for dtype in DTYPES:
                if dtype != 'float64' and metric == 'chebyshev':
                    continue
                X = cr.as_array(pts, dtype)
                D = cr.dist_matrix(X, metric)
                radii = greedy_radii(D, [0])
                inits = [None]
                if dtype == 'float64':
                    if tier == 'thorough':
                        subs = [s for m in range(1, min(3, n) + 1) for s in itertools.permutations(range(n), m)]
                    else:
                        subs = [s for m in range(1, min(3, n) + 1) for s in itertools.combinations(range(n), m)]
                        subs += [s[::-1] for s in itertools.combinations(range(n), 2)]
                    inits += [list(s) for s in subs]
                for init in inits:
                    rr = radii if init is None else greedy_radii(D, init)
                    for ncl, cut in stop_rules(n, rr):
                        if init is not None and ncl not in ('default', None) and ncl < len(init):
                            continue  # fewer clusters requested than supplied: not in the statement
                        for tri in (False, True):
                            case = {'pts': pts, 'dtype': dtype, 'metric': metric, 'ncl': ncl, 'cut': cut,
                                    'init': init, 'tri': tri}
                            check_case(case, ctx)
        if (j // NSH[tier]) % (12 if tier == 'quick' else 3) == 0:
            for metric in ('euclidean', 'manhattan'):
                X = cr.as_array(pts, 'float64')
                for coords, ncl in offframe_cases(pts, tier):
                    C0 = cr.as_array(coords, 'float64')
                    mfun = cr.np_metric(metric)
                    d0 = np.array([mfun(X, c) for c in C0]).min(axis=0)
                    # the statement presupposes a sensible start: every supplied center is the nearest one for some frame
                    lab0 = np.array([mfun(X, c) for c in C0]).argmin(axis=0)
                    if len(set(lab0.tolist())) < len(C0):
                        continue
                    rs = [float(r) for r in sorted(set(np.round(d0, 9))) if r > 0]
                    cuts = [None] + [r + e for r in (rs if tier == 'thorough' else rs[-2:]) for e in (-EPS, EPS)]
                    for cut in cuts:
                        if ncl is None and cut is None:
                            continue
                        for tri in (False, True):
                            oc = {'kind': 'off', 'pts': pts, 'metric': metric, 'coords': coords, 'ncl': ncl, 'cut': cut, 'tri': tri}
                            check_offframe(oc, ctx)
        if j % 101 == 0:
            ctx.sample(case)


def replay(case, ctx):
    if case.get('kind') == 'off':
        return check_offframe(case, ctx)
    check_case(case, ctx)
