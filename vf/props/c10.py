"""C10 - nearest-center assignment and per-trajectory bookkeeping are exact.

E1: (a) every data set x every ordered center list drawn from grid points (centers need not be
frames; fewer and more centers than frames) through assign_to_nearest_center, Estimator.predict,
find_cluster_centers; (b) every composition of n<=6 (T: 7) into trajectory lengths x every flat
index through ClusterResult.partition / partition_list / partition_indices; (c) batch_reassign on
synthetic 3-atom trajectories for every batch boundary (environment answer of determine_batch_size)
with the simulated worker pool.
"""
import itertools
import os
import shutil
import tempfile

import numpy as np

from ..models import clusterref as cr

ID = 'C10'
RULE = ('(a) data sets: ordered tuples of distinct lattice points (Q: 1-D {0..4} n<=3, 2-D 2x2.. n<=3; T larger) x '
        'every ordered list of <=4 (Q: <=3 for 2-D) distinct grid points as centers x metrics x dtypes through '
        'assign_to_nearest_center (also with metrics that reuse one output buffer / return views of a table), predict (after fit; and fit/predict/refit/predict histories on ONE estimator with numpy and mdtraj data, fewer and more frames than centers), find_cluster_centers; (b) all compositions of n<=6 (T: 8) x all '
        'flat center indices x all label vectors pattern through ClusterResult.partition/partition_list/'
        'partition_indices with list and ndarray center indices, partition called twice; find_cluster_centers for label dtypes '
        'int8..int64 over 3..300 frames (index range of the label dtype); (c) batch_reassign: all length vectors (<=3 files, length 1..3) x every batch size from '
        'max(lengths) to sum+1; state = canonical input; non-trivial = >=2 centers and a frame that is not a center '
        '/ composition with >=2 trajectories')
ASSUMPTIONS = ['RMSD clauses (batch reassignment) compared at 1e-4: mdtraj float32 QCP superposition differs by up to ~2e-5 between precentered-batch and per-file evaluation of the same frames',
               'batch_reassign is driven with determine_batch_size substituted by the explorer (environment answer) '
               'and the simulated in-process worker pool; the real trajectory files are written with mdtraj']
GUARDS = {'narrow_lengths': 10, 'ndarray_indices': 100, 'label_dtypes': 50, 'more_centers_than_frames': 100, 'centers_not_frames': 100, 'ragged_partition': 100, 'square_partition': 50,
          'len1_traj': 100, 'predict': 100, 'predict_history': 50, 'batch_boundary_cases': 20}
NSH = {'quick': 32, 'thorough': 128}
METRICS = ('euclidean', 'manhattan', 'chebyshev')


def shards(tier, seed):
    sh = [('assign', tier, i) for i in range(NSH[tier])]
    sh += [('partition', tier, n) for n in range(1, (7 if tier == 'quick' else 9))]
    sh += [('batch', tier, i) for i in range(4 if tier == 'quick' else 12)]
    sh += [('fcc', tier, 0)]
    sh += [('phist', tier, i) for i in range(4)]
    return sh


# ------------------------------------------------------------------ (a)

def assign_cases(tier):
    out = []
    if tier == 'quick':
        g1 = list(range(5))
        for data in cr.lattice_sets(g1, 3):
            for cen in cr.lattice_sets(g1, 4):
                out.append((data, cen))
        g2 = cr.grid((2, 2)) + [(2, 1)]
        for data in cr.lattice_sets(g2, 3):
            for cen in cr.lattice_sets(g2, 3):
                out.append((data, cen))
    else:
        g1 = list(range(6))
        for data in cr.lattice_sets(g1, 4):
            for cen in cr.lattice_sets(g1, 4):
                out.append((data, cen))
        g2 = cr.grid((3, 2))
        for data in cr.lattice_sets(g2, 3):
            for cen in cr.lattice_sets(g2, 4):
                out.append((data, cen))
    return out


def check_assign(case, ctx):
    from enspara.cluster import util
    data, cen, metric, dtype = case['data'], case['centers'], case['metric'], case['dtype']
    X = cr.as_array([tuple(q) if isinstance(q, (list, tuple)) else q for q in data], dtype)
    C = cr.as_array([tuple(q) if isinstance(q, (list, tuple)) else q for q in cen], dtype)
    m = cr.np_metric(metric)
    Dc = np.array([m(X, c) for c in C])      # (k, n)
    want = Dc.min(axis=0)
    ctx.ev()
    key = (tuple(map(tuple, X.tolist())), tuple(map(tuple, C.tolist())), metric, dtype, case.get('via', 'fn'))
    k, n = len(C), len(X)
    ctx.state(key, nontrivial=(k >= 2 and n >= 2))
    if k > n:
        ctx.guard('more_centers_than_frames')
    if any(tuple(c) not in set(map(tuple, X.tolist())) for c in C.tolist()):
        ctx.guard('centers_not_frames')
    X0, C0 = X.copy(), C.copy()
    centers = [c for c in C]
    try:
        if case.get('via') == 'predict':
            pass
        if case.get('via') == 'predict':
            from enspara.cluster import KCenters
            est = KCenters(cr.impl_metric(metric), n_clusters=len(C))
            est.fit(C)        # fitted on the center set itself: centers_ is a permutation of C
            fitted = np.array(est.centers_)
            r = est.predict(X)
            lab, dist = r.assignments, r.distances
            Dc = np.array([m(X, c) for c in fitted])
            want = Dc.min(axis=0)
            ctx.guard('predict')
            fcc = r.center_indices
        else:
            dm = util._get_distance_method(cr.impl_metric(metric))
            via_ = case.get('via', 'fn')
            if via_ == 'fn_outbuf':
                # a metric that hands back the SAME float64 buffer on every call (the documented out= argument)
                import functools
                scratch = np.zeros(len(X))
                from enspara.geometry import libdist
                dm = functools.partial(getattr(libdist, metric), out=scratch)
            elif via_ == 'fn_table':
                # a metric answering from a precomputed table: returns VIEWS of persistent storage
                table = np.array([m(X, c) for c in C])
                table0 = table.copy()
                rowof = {tuple(np.atleast_1d(c).tolist()): i for i, c in enumerate(C.tolist())}
                dm = lambda Xa, y: table[rowof[tuple(np.atleast_1d(y).tolist())]]
            lab, dist = util.assign_to_nearest_center(X, centers, dm)
            if via_ == 'fn_table' and not np.array_equal(table, table0):
                ctx.violation('assign:corrupts_metric_storage', case, 'the distance table the metric answers from was modified')
            fcc = util.find_cluster_centers(lab, dist)
    except Exception as e:
        ctx.violation('assign:raises:%s:%s' % (case.get('via', 'fn'), type(e).__name__), case, 'raised %r on %r' % (e, case))
        return
    via = case.get('via', 'fn')
    lab = np.asarray(lab)
    dist = np.asarray(dist)
    if lab.shape != (n,) or dist.shape != (n,):
        ctx.violation('assign:shape:%s' % via, case, 'shapes %s %s' % (lab.shape, dist.shape))
        return
    if lab.min() < 0 or lab.max() >= len(Dc):
        ctx.violation('assign:label_range:%s' % via, case, 'labels %r' % lab.tolist())
        return
    if not np.allclose(dist, want, rtol=0, atol=cr.TOL):
        ctx.violation('assign:not_min_distance:%s' % via, case, 'distances %r, minimum over centers %r (%r)' % (dist.tolist(), want.tolist(), case))
    att = Dc[lab, np.arange(n)]
    if not np.allclose(att, want, rtol=0, atol=cr.TOL):
        ctx.violation('assign:label_not_argmin:%s' % via, case, 'labels %r give %r, minimum %r (%r)' % (lab.tolist(), att.tolist(), want.tolist(), case))
    if not (np.array_equal(X, X0) and np.array_equal(C, C0)):
        ctx.violation('assign:mutates_input:%s' % via, case, 'inputs modified')
    # per-label center finder: one entry per label present (ascending), a member at minimal distance
    present = sorted(set(lab.tolist()))
    fcc = [int(i) for i in fcc]
    if len(fcc) != len(present):
        ctx.violation('find_centers:count', case, '%d centers for labels %r' % (len(fcc), present))
    else:
        for l, idx in zip(present, fcc):
            members = np.where(lab == l)[0]
            if idx not in members or dist[idx] > dist[members].min() + cr.TOL:
                ctx.violation('find_centers:not_min_member', case, 'label %d -> frame %d (members %r dist %r)' % (l, idx, members.tolist(), dist.tolist()))
                break


# ------------------------------------------------------------------ (b)

def compositions(n):
    for bits in itertools.product((0, 1), repeat=n - 1):
        out, cur = [], 1
        for b in bits:
            if b:
                out.append(cur)
                cur = 1
            else:
                cur += 1
        out.append(cur)
        yield out


def check_partition(case, ctx):
    from enspara.cluster import util
    from enspara import ra
    lengths, idxs, lkind = case['lengths'], case['indices'], case['lengths_kind']
    n = sum(lengths)
    ctx.ev()
    ctx.state(('part', tuple(lengths), tuple(idxs), lkind, case.get('indices_kind', 'list')), nontrivial=len(lengths) >= 2)
    assign = np.arange(n, dtype=int) * 3 % 7
    dist = np.arange(n, dtype=float) * 0.5 + 0.25
    centers = [np.array([float(i)]) for i in idxs]
    L = {'list': list(lengths), 'array': np.array(lengths), 'tuple': tuple(lengths)}[lkind]
    ikind = case.get('indices_kind', 'list')
    ci = list(idxs) if ikind == 'list' else np.array(idxs, dtype=int)
    res = util.ClusterResult(center_indices=ci, assignments=assign.copy(), distances=dist.copy(), centers=centers)
    try:
        p = res.partition(L)
        if ikind != 'list':
            ctx.guard('ndarray_indices')
            if [int(x) for x in res.center_indices] != list(idxs):
                ctx.violation('partition:mutates_center_indices', case,
                              'partition() changed the flat center indices of the result it was called on: %r -> %r' % (
                                  list(idxs), [int(x) for x in res.center_indices]))
            p2 = res.partition(L)
            if [tuple(map(int, x)) for x in p2.center_indices] != [tuple(map(int, x)) for x in p.center_indices]:
                ctx.violation('partition:second_call_differs', case, '%r then %r' % (p.center_indices, p2.center_indices))
    except Exception as e:
        ctx.violation('partition:raises:%s' % type(e).__name__, case, 'partition raised %r on %r' % (e, case))
        return
    square = len(set(lengths)) == 1
    if square:
        ctx.guard('square_partition')
    else:
        ctx.guard('ragged_partition')
    if 1 in lengths:
        ctx.guard('len1_traj')
    for name, flat, part in (('assignments', assign, p.assignments), ('distances', dist, p.distances)):
        if square:
            if not isinstance(part, np.ndarray) or part.shape != (len(lengths), lengths[0]):
                ctx.violation('partition:container:square', case, '%s is %s shape %s for lengths %r' % (name, type(part).__name__, getattr(part, 'shape', None), lengths))
                continue
            rows = [np.asarray(r) for r in part]
        else:
            if not isinstance(part, ra.RaggedArray):
                ctx.violation('partition:container:ragged', case, '%s is %s for lengths %r' % (name, type(part).__name__, lengths))
                continue
            rows = [np.asarray(r) for r in part]
        if [len(r) for r in rows] != list(lengths):
            ctx.violation('partition:row_lengths', case, '%s rows %r vs %r' % (name, [len(r) for r in rows], lengths))
            continue
        cat = np.concatenate(rows)
        if not np.array_equal(cat, flat) or cat.dtype != flat.dtype:
            ctx.violation('partition:roundtrip', case, '%s: concatenated %r (%s) != flat %r' % (name, cat.tolist(), cat.dtype, flat.tolist()))
    if len(p.center_indices) != len(idxs):
        ctx.violation('partition:indices_dropped', case, 'center_indices %r for flat %r lengths %r' % (p.center_indices, idxs, lengths))
    else:
        starts = np.concatenate([[0], np.cumsum(lengths)[:-1]])
        for flat_i, pair in zip(idxs, p.center_indices):
            t, f = int(pair[0]), int(pair[1])
            if not (0 <= t < len(lengths) and 0 <= f < lengths[t] and starts[t] + f == flat_i):
                ctx.violation('partition:index_address', case, 'flat index %d -> %r with lengths %r' % (flat_i, pair, lengths))
                break
    if p.centers is not centers and list(map(id, p.centers)) != list(map(id, centers)):
        ctx.violation('partition:centers_changed', case, 'centers replaced')
    if not (np.array_equal(res.assignments, assign) and np.array_equal(res.distances, dist)):
        ctx.violation('partition:mutates', case, 'flat arrays modified')
    # stand-alone helpers
    try:
        pl = ra.partition_list(list(range(n)), L)
        if [list(x) for x in pl] != [list(range(s, s + l)) for s, l in zip(np.concatenate([[0], np.cumsum(lengths)[:-1]]).tolist(), lengths)]:
            ctx.violation('partition_list:value', case, 'partition_list %r' % (pl,))
        pi = ra.partition_indices(list(idxs), L)
        if [tuple(map(int, x)) for x in pi] != [tuple(map(int, x)) for x in p.center_indices]:
            ctx.violation('partition_indices:differs', case, '%r vs %r' % (pi, p.center_indices))
    except Exception as e:
        ctx.violation('partition_helpers:raises:%s' % type(e).__name__, case, repr(e))


def check_narrow_lengths(ctx):
    """trajectory lengths given as a narrow-dtype numpy array whose running sum leaves the dtype's range"""
    from enspara import ra
    from enspara.cluster import util
    for dt in ('int8', 'uint8', 'int16', 'int64'):
        for lengths in ([100, 100, 100], [50, 120, 90, 3], [127, 1, 127], [200, 100] if dt != 'int8' else [60, 60, 60]):
            if max(lengths) > np.iinfo(dt).max:
                continue
            ctx.ev()
            ctx.guard('narrow_lengths')
            n = sum(lengths)
            L = np.array(lengths, dtype=dt)
            case = {'kind': 'narrow_lengths', 'dtype': dt, 'lengths': lengths}
            ctx.state(('narrowlen', dt, tuple(lengths)), nontrivial=n > np.iinfo(dt).max)
            try:
                pl = ra.partition_list(np.arange(n), L)
                if [len(x) for x in pl] != lengths or np.concatenate(pl).tolist() != list(range(n)):
                    ctx.violation('partition_list:narrow_lengths_dtype', case, 'rows of length %r for lengths %r (%s)' % ([len(x) for x in pl], lengths, dt))
                idx = [0, lengths[0], n - 1]
                pi = ra.partition_indices(idx, L)
                starts = np.concatenate([[0], np.cumsum(lengths)[:-1]])
                want = [(int(np.searchsorted(starts, i, side='right') - 1), int(i - starts[np.searchsorted(starts, i, side='right') - 1])) for i in idx]
                if [tuple(map(int, x)) for x in pi] != want:
                    ctx.violation('partition_indices:narrow_lengths_dtype', case, '%r != %r' % (pi, want))
                res = util.ClusterResult(center_indices=idx, assignments=np.arange(n) % 3, distances=np.arange(n) * 1.0, centers=[0, 1, 2])
                p = res.partition(L)
                rows = [np.asarray(r) for r in p.assignments]
                if [len(r) for r in rows] != lengths:
                    ctx.violation('partition:narrow_lengths_dtype', case, 'partition rows %r' % [len(r) for r in rows])
            except Exception as e:
                ctx.violation('partition:narrow_lengths_dtype:raises:%s' % type(e).__name__, case, 'raised %r for lengths %r as %s' % (e, lengths, dt))
    ctx.sample(case)


def check_fcc_dtypes(ctx):
    from enspara.cluster import util
    for dt in ('int8', 'uint8', 'int16', 'uint16', 'int32', 'int64'):
        for n in (3, 127, 128, 129, 255, 256, 257, 300):
            for k in (1, 2, 3):
                ctx.ev()
                ctx.guard('label_dtypes')
                case = {'kind': 'fcc_dtype', 'dtype': dt, 'n': n, 'k': k}
                ctx.state(('fcc', dt, n, k), nontrivial=n > 127)
                lab = (np.arange(n) * k // n).astype(dt)
                dist = ((np.arange(n) * 7) % 11 + 1).astype(float)
                want = []
                for l in range(k):
                    mem = np.where(lab == l)[0]
                    j = mem[-1]
                    dist[j] = 0.0          # the LAST member is the unique closest one
                    want.append(int(j))
                try:
                    got = [int(x) for x in util.find_cluster_centers(lab, dist)]
                except Exception as e:
                    ctx.violation('find_centers:raises:%s:narrow_label_dtype' % type(e).__name__, case,
                                  'find_cluster_centers raised %r for %s labels over %d frames' % (e, dt, n))
                    continue
                if got != want:
                    ctx.violation('find_centers:wrong_frame:narrow_label_dtype', case, 'got %r want %r (%s labels, %d frames)' % (got, want, dt, n))
    ctx.sample(case)


# ------------------------------------------------------------------ (c) batch reassignment

def _write_trajs(tmp, lengths, n_atoms=3):
    import mdtraj as md
    top = md.Topology()
    ch = top.add_chain()
    res = top.add_residue('ALA', ch)
    for a in range(n_atoms):
        top.add_atom('CA', md.element.carbon, res)
    rng = np.random.RandomState(12345)
    shapes = rng.rand(4, n_atoms, 3).astype(np.float32)       # 4 distinct conformations
    files, all_xyz = [], []
    f0 = 0
    for i, L in enumerate(lengths):
        conf = [(f0 + t) % 4 for t in range(L)]
        # perturbed + translated copies: every RMSD is O(0.1) so float32 superposition error (~eps*|x|^2/rmsd)
        # stays far below the 1e-5 comparison tolerance (near-zero RMSDs carry ~1e-4 absolute error)
        xyz = (shapes[conf] + 0.3 * rng.rand(L, n_atoms, 3) + rng.rand(L, 1, 3)).astype(np.float32)
        f0 += L
        t = md.Trajectory(xyz, top)
        fn = os.path.join(tmp, 'trj%d.xtc' % i)
        t.save_xtc(fn)
        files.append(fn)
        all_xyz.append(md.load(fn, top=top).xyz)
    topfn = os.path.join(tmp, 'top.pdb')
    md.Trajectory(shapes[:1], top).save_pdb(topfn)
    centers = [md.Trajectory(shapes[c:c + 1].copy(), top) for c in (0, 1, 2)]
    return files, top, centers, all_xyz, shapes


def check_batch(case, ctx):
    import mdtraj as md
    from enspara.cluster import util
    from .. import simpool
    lengths, bs = case['lengths'], case['batch_size']
    ctx.ev()
    ctx.state(('batch', tuple(lengths), bs), nontrivial=len(lengths) >= 2)
    tmp = tempfile.mkdtemp(prefix='vfc10-')
    try:
        files, top, centers, all_xyz, shapes = _write_trajs(tmp, lengths)
        for c in centers:
            c.center_coordinates()
        aids = np.arange(3)
        targets = [(f, top, aids) for f in files]
        # reference: per file, rmsd to every center
        want_a, want_d = [], []
        for xyz in all_xyz:
            t = md.Trajectory(xyz.copy(), top)
            d = np.array([md.rmsd(t, c) for c in centers])
            want_a.append(d.argmin(axis=0))
            want_d.append(d.min(axis=0))
        orig = util.determine_batch_size
        util.determine_batch_size = lambda n_atoms, b, frac: (bs, 0.0)
        try:
            with simpool.installed():
                a, d = util.batch_reassign(targets, centers, list(lengths), frac_mem=0.5, n_procs=2)
        finally:
            util.determine_batch_size = orig
        ctx.guard('batch_boundary_cases')
        if len(a) != len(lengths) or len(d) != len(lengths):
            ctx.violation('batch:n_rows', case, '%d/%d rows for %d files' % (len(a), len(d), len(lengths)))
            return
        for i in range(len(lengths)):
            if len(a[i]) != lengths[i] or len(d[i]) != lengths[i]:
                ctx.violation('batch:row_length', case, 'file %d: %d labels for %d frames' % (i, len(a[i]), lengths[i]))
                return
            if not np.allclose(d[i], want_d[i], atol=1e-4):
                ctx.violation('batch:distance', case, 'file %d distances %r vs %r' % (i, np.asarray(d[i]).tolist(), want_d[i].tolist()))
                return
            # label must attain the minimum (ties tolerated at 1e-5)
            t = md.Trajectory(all_xyz[i].copy(), top)
            dd = np.array([md.rmsd(t, c) for c in centers])
            att = dd[np.asarray(a[i]), np.arange(lengths[i])]
            if not np.allclose(att, want_d[i], atol=1e-4):
                ctx.violation('batch:label', case, 'file %d labels %r' % (i, np.asarray(a[i]).tolist()))
                return
    except Exception as e:
        ctx.violation('batch:raises:%s' % type(e).__name__, case, 'batch_reassign raised %r on %r' % (e, case))
    finally:
        shutil.rmtree(tmp, ignore_errors=True)


def batch_cases(tier):
    out = []
    maxf = 3
    for nf in range(1, maxf + 1):
        for lengths in itertools.product(range(1, 4), repeat=nf):
            for bs in range(max(lengths), sum(lengths) + 2):
                out.append({'kind': 'batch', 'lengths': list(lengths), 'batch_size': bs})
    return out


# ------------------------------------------------------------------ (d) predict after every fit of ONE estimator object

def _synthetic_trj(seed, n_frames, n_atoms=4):
    import mdtraj as md
    top = md.Topology()
    ch = top.add_chain()
    res = top.add_residue('ALA', ch)
    for a in range(n_atoms):
        top.add_atom('CA', md.element.carbon, res)
    rng = np.random.RandomState(seed)
    shapes = rng.rand(6, n_atoms, 3).astype(np.float32)
    conf = [t % 6 for t in range(n_frames)]
    xyz = (shapes[conf] + 0.3 * rng.rand(n_frames, n_atoms, 3)).astype(np.float32)
    return md.Trajectory(xyz, top)


def check_predict_history(case, ctx):
    """fit / predict / fit / predict ... on ONE estimator: every predict must assign to the centers of the LATEST fit"""
    import mdtraj as md
    from enspara.cluster import KCenters, KHybrid
    kind, est_name, steps = case['data'], case['estimator'], case['steps']
    ctx.ev()
    ctx.guard('predict_history')
    ctx.state(('predict_history', kind, est_name, repr(steps)), nontrivial=True)
    if kind == 'mdtraj':
        sets = {name: _synthetic_trj(seed, n) for name, (seed, n) in (('A', (1, 9)), ('B', (2, 11)), ('C', (3, 7)))}
        metric = md.rmsd
        dist = lambda X, c: md.rmsd(X, c)
        tol = 1e-4
        take = lambda X, k: X[:k]
    else:
        rng = np.random.RandomState(7)
        sets = {'A': rng.randint(0, 50, (9, 2)).astype(float), 'B': rng.randint(0, 50, (11, 2)).astype(float) + 100,
                'C': rng.randint(0, 50, (7, 2)).astype(float) - 100}
        metric = 'euclidean'
        dist = lambda X, c: np.sqrt(((X - c) ** 2).sum(axis=1))
        tol = 1e-9
        take = lambda X, k: X[:k]
    est = KCenters(metric, n_clusters=1) if est_name == 'KCenters' else KHybrid(metric, n_clusters=1, kmedoids_updates=1, random_state=0)
    try:
        for st in steps:
            if st[0] == 'fit':
                est.n_clusters = st[2]
                est.fit(sets[st[1]])
            else:
                X = take(sets[st[1]], st[2])
                r = est.predict(X)
                cs = est.centers_
                Dc = np.array([dist(X, c) for c in cs])
                want = Dc.min(axis=0)
                lab, d = np.asarray(r.assignments), np.asarray(r.distances)
                if len(cs) != len(est.center_indices_):
                    ctx.violation('predict_history:n_centers', case, '%d centers for %d center indices' % (len(cs), len(est.center_indices_)))
                    return
                if lab.shape != (len(X),) or lab.min() < 0 or lab.max() >= len(cs):
                    ctx.violation('predict_history:labels:%s' % kind, case, 'labels %r for %d fitted centers after step %r' % (lab.tolist(), len(cs), st))
                    return
                if np.abs(d - want).max() > tol or np.abs(Dc[lab, np.arange(len(X))] - want).max() > tol:
                    ctx.violation('predict_history:not_nearest_fitted_center:%s' % kind, case,
                                  'after %r: reported %r, minimal distance to the centers of the latest fit %r' % (st, d.tolist(), want.tolist()))
                    return
    except Exception as e:
        ctx.violation('predict_history:raises:%s:%s' % (kind, type(e).__name__), case, 'raised %r on %r' % (e, case))


def predict_history_cases():
    out = []
    for data in ('numpy', 'mdtraj'):
        for est in ('KCenters', 'KHybrid'):
            for k1, k2 in ((3, 4), (4, 2), (5, 5), (2, 6)):
                for small in (1, 2, k1 - 1, k1, 7):
                    out.append({'kind': 'predict_history', 'data': data, 'estimator': est,
                                'steps': [('fit', 'A', k1), ('predict', 'C', small), ('predict', 'A', 9), ('fit', 'B', k2), ('predict', 'C', small),
                                          ('predict', 'B', min(small, 5)), ('fit', 'A', k1), ('predict', 'C', small)]})
    return out


# ------------------------------------------------------------------

def run_shard(sh, ctx):
    kind, tier, i = sh
    if kind == 'phist':
        cs = predict_history_cases()
        for j in range(i, len(cs), 4):
            check_predict_history(cs[j], ctx)
        ctx.sample(cs[i])
        return
    if kind == 'assign':
        cases = assign_cases(tier)
        for j in range(i, len(cases), NSH[tier]):
            data, cen = cases[j]
            for metric in METRICS:
                if metric == 'chebyshev' and not isinstance(data[0], tuple):
                    continue
                for dtype in ('float64', 'int32') if metric != 'chebyshev' else ('float64',):
                    for via in ('fn', 'predict', 'fn_outbuf', 'fn_table'):
                        if via == 'predict' and (dtype != 'float64'):
                            continue
                        if via == 'fn_outbuf' and (metric == 'chebyshev' or dtype != 'float64' or j % 3):
                            continue
                        if via == 'fn_table' and (len(set(map(tuple, np.atleast_2d(cr.as_array(cen, dtype)).tolist()))) != len(cen) or j % 3):
                            continue
                        case = {'kind': 'assign', 'data': data, 'centers': cen, 'metric': metric, 'dtype': dtype, 'via': via}
                        check_assign(case, ctx)
            if j % 997 == 0:
                ctx.sample(case)
    elif kind == 'fcc':
        check_fcc_dtypes(ctx)
        check_narrow_lengths(ctx)
    elif kind == 'partition':
        n = i
        for lengths in compositions(n):
            for r in (1, 2):
                for idxs in itertools.combinations(range(n), r) if r == 1 else \
                        [(a, b) for a in range(n) for b in range(n) if a != b][::max(1, n // 3)]:
                    for lkind in ('list', 'array', 'tuple'):
                        for ikind in ('list', 'ndarray'):
                            case = {'kind': 'partition', 'lengths': lengths, 'indices': list(idxs), 'lengths_kind': lkind,
                                    'indices_kind': ikind}
                            check_partition(case, ctx)
        ctx.sample(case)
    else:
        cases = batch_cases(tier)
        nb = 4 if tier == 'quick' else 12
        for j in range(i, len(cases), nb):
            check_batch(cases[j], ctx)
        ctx.sample(cases[i])


def replay(case, ctx):
    if case['kind'] == 'fcc_dtype':
        check_fcc_dtypes(ctx)
        return
    if case['kind'] == 'narrow_lengths':
        check_narrow_lengths(ctx)
        return
    {'assign': check_assign, 'partition': check_partition, 'batch': check_batch, 'predict_history': check_predict_history}[case['kind']](case, ctx)
