"""C13 - distance kernels are exact for every dtype, memory layout and thread count.

E1 over inputs (rows x targets over a value alphabet incl. dtype extremes) x dtypes x layouts x out modes x kernels;
E2 over OpenMP schedules on the `sched` build (real compiled kernel regions run under the gompshim scheduler):
all executions with <=2 (T: <=4) deviations from the default thread order for T = 1..n+1, isolation runs (write sets),
T = 5..16 in default and reversed order; plus a free-running pass of the normal libgomp build with 1..16 threads.
"""
import itertools
import json
import math
import os
import subprocess
import sys
from fractions import Fraction

import numpy as np

from .. import build, explore

ID = 'C13'
VARIANT = 'sched'
ENGINE = 'E2-choice-prefix-dfs'
TECHNIQUE = ('small-scope enumeration of inputs + stateless choice-prefix DFS over OpenMP thread schedules of the real '
             'compiled kernels (controlled libgomp replacement), deviation-bounded, with write-set isolation runs')
RULE = ('inputs: every row x every target over a 7-value alphabet per dtype (incl. dtype min/max, +-2^31, +-2^40 for int64) for '
        'widths 1..2 (3 with reduced target set), packed into matrices of 1..4 rows x dtypes {int8..int64,float32,float64; '
        'uint8..uint64 for hamming} x layouts {C,F,strided/negative-stride views, non-contiguous y} x out {None,fresh,strided '
        'view with sentinels,poisoned} x kernels; invalid-argument menu must raise; metric names {euclidean, manhattan, cityblock} map to the right kernel; wide rows (1024..2048 features, 1..8 rows) must be bit-identical over thread counts 1..16 and orders; schedules: per (kernel,dtype,n<=4) all '
        'executions with <=2 (T: <=4) deviations from the default order for T=1..n+1 threads, T=5..16 default order, isolation '
        'run per thread; state=(kernel,dtype,layout,out mode,X,y,T,schedule); non-trivial = execution with >1 enabled thread '
        'at some decision point or input containing a dtype extreme')
ASSUMPTIONS = ['preemption inside a chunk is not enumerated; covered by the write-set argument: isolated per-thread runs write '
               'pairwise disjoint cells whose union equals the full result, so finer interleavings are Mazurkiewicz-equivalent',
               'oracle in exact rational arithmetic (fractions), compared at 1e-12 relative (float32 inputs: 1e-6)',
               'weak-memory reordering is out of reach of a baton scheduler',
               'the free-running pass (real libgomp, 1..16 threads) is a configuration sweep, not a schedule enumeration']
GUARDS = {'sched_noncontiguous_layout': 10, 'metric_names': 6, 'wide_rows': 50, 'multi_enabled': 100, 'extreme_values': 1000, 'strided_out': 100, 'invalid_rejected': 40, 'isolation_runs': 50,
          'free_running_threads': 16}
EXT = 'enspara.geometry.libdist'
KERNELS = ('euclidean', 'manhattan', 'hamming')
SIGNED = ('int8', 'int16', 'int32', 'int64')
UNSIGNED = ('uint8', 'uint16', 'uint32', 'uint64')
FLOATS = ('float32', 'float64')


def dtypes_for(kernel):
    return SIGNED + UNSIGNED if kernel == 'hamming' else SIGNED + FLOATS


def alphabet(dtype):
    dt = np.dtype(dtype)
    if dt.kind == 'f':
        return [-2.5, -1.0, 0.0, 0.5, 1.0, 2.0, 1e6 if dtype == 'float32' else 1e12]
    info = np.iinfo(dt)
    if dt.kind == 'u':
        return [0, 1, 2, 3, info.max - 1, info.max, info.max // 2]
    vals = [info.min, -2, -1, 0, 1, 2, info.max]
    if dtype == 'int64':
        vals = [info.min, -2 ** 40, -2 ** 31, 0, 1, 2 ** 31, info.max]
    return vals


def exact(v):
    return Fraction(v) if not isinstance(v, float) else Fraction(v)


def oracle(kernel, row, y):
    d = [exact(a) - exact(b) for a, b in zip(row, y)]
    if kernel == 'euclidean':
        s = sum(x * x for x in d)
        return math.sqrt(s) if s < 2 ** 1000 else float('inf')
    if kernel == 'manhattan':
        return float(sum(abs(x) for x in d))
    return float(Fraction(sum(1 for x in d if x != 0), len(d)))


def shards(tier, seed):
    sh = [('inputs', tier, k, dt) for k in KERNELS for dt in dtypes_for(k)]
    sh += [('invalid', tier, 0, None)]
    sh += [('sched', tier, k, dt) for k in KERNELS for dt in (('float64', 'int32', 'float32', 'int64') if k != 'hamming' else ('uint8', 'int64', 'uint32'))]
    sh += [('free', tier, 0, None), ('names', tier, 0, None)]
    return sh


def layouts(X, y, which):
    """returns (Xv, yv) views with the given layout holding the same values"""
    n, f = X.shape
    if which == 'C':
        return np.ascontiguousarray(X), np.ascontiguousarray(y)
    if which == 'F':
        return np.asfortranarray(X), y.copy()
    if which == 'stride2':
        base = np.zeros((2 * n, 2 * f), dtype=X.dtype)
        base[::2, ::2] = X
        by = np.zeros(2 * f, dtype=y.dtype)
        by[::2] = y
        return base[::2, ::2], by[::2]
    if which == 'neg':
        base = np.ascontiguousarray(X[::-1, ::-1])
        by = np.ascontiguousarray(y[::-1])
        return base[::-1, ::-1], by[::-1]
    if which == 'rowneg_colstride':
        base = np.zeros((n, 2 * f), dtype=X.dtype)
        base[::-1, ::2] = X
        return base[::-1, ::2], y.copy()
    if which == 'T':
        base = np.ascontiguousarray(X.T)
        return base.T, y.copy()
    raise ValueError(which)


LAYOUTS = ('C', 'F', 'stride2', 'neg', 'rowneg_colstride', 'T')
OUTS = ('none', 'fresh', 'strided', 'poisoned')
SENT = -777.25


def call(kernel, Xv, yv, outmode):
    from enspara.geometry import libdist
    fn = getattr(libdist, kernel)
    n = Xv.shape[0]
    if outmode == 'none':
        r = fn(Xv, yv)
        return r, None, None
    if outmode == 'fresh':
        out = np.zeros(n, dtype=np.float64)
    elif outmode == 'poisoned':
        out = np.full(n, np.nan)
        if n > 1:
            out[1] = 1e300
    else:
        base = np.full(2 * n + 1, SENT)
        out = base[1::2][:n]
        r = fn(Xv, yv, out=out)
        return r, out, base
    r = fn(Xv, yv, out=out)
    return r, out, None


def check_call(case, ctx):
    kernel, dtype, lay, outmode = case['kernel'], case['dtype'], case['layout'], case['out']
    rows, yvals = case['rows'], case['y']
    dt = np.dtype(dtype)
    X = np.array(rows, dtype=dt).reshape(len(rows), len(yvals))
    y = np.array(yvals, dtype=dt)
    Xv, yv = layouts(X, y, lay)
    assert np.array_equal(Xv, X) and np.array_equal(yv, y)
    ctx.ev()
    ext = set()
    if dt.kind in 'iu':
        info = np.iinfo(dt)
        ext = {info.min, info.max} if dt.kind == 'i' else {info.max}
    extreme = any(v in ext or (dtype == 'int64' and abs(v) >= 2 ** 31) for r in list(rows) + [yvals] for v in r)
    ctx.state((kernel, dtype, lay, outmode, X.tobytes(), y.tobytes()), nontrivial=extreme)
    if extreme:
        ctx.guard('extreme_values')
    X0, y0 = X.copy(), y.copy()
    try:
        r, out, base = call(kernel, Xv, yv, outmode)
    except Exception as e:
        ctx.violation('%s:raises:%s:%s' % (kernel, dtype, type(e).__name__), case, '%s raised %r on %r' % (kernel, e, case))
        return
    want = np.array([oracle(kernel, row, yvals) for row in X0.tolist()])
    if dt.kind == 'f':
        want = np.array([oracle(kernel, [float(v) for v in row], [float(v) for v in y0]) for row in X0])
    r = np.asarray(r)
    if r.dtype != np.float64 or r.shape != (len(rows),):
        ctx.violation('%s:result_type' % kernel, case, 'result dtype %s shape %s' % (r.dtype, r.shape))
        return
    rtol = 1e-6 if dtype == 'float32' else 1e-12
    ok = np.allclose(r, want, rtol=rtol, atol=0) and not np.isnan(r).any()
    if not ok:
        wide = dt.kind in 'iu' and dt.itemsize >= 4 and extreme
        ctx.violation('%s:value:%s' % (kernel, 'wide_int_extremes' if wide else dtype), case,
                      '%s(%s %s, y=%r) = %r, exact %r (layout %s out %s)' % (kernel, dtype, X0.tolist(), y0.tolist(), r.tolist(), want.tolist(), lay, outmode))
    if outmode != 'none':
        if r is not out and not (isinstance(r, np.ndarray) and np.shares_memory(r, out) and r.shape == out.shape):
            ctx.violation('%s:out_not_returned' % kernel, case, 'returned object is not the out buffer')
        if not np.array_equal(out, r, equal_nan=True):
            ctx.violation('%s:out_not_filled' % kernel, case, 'out holds %r, returned %r' % (out.tolist(), r.tolist()))
        if base is not None:
            ctx.guard('strided_out')
            other = np.ones(len(base), bool)
            other[1:2 * len(rows):2] = False
            if not np.all(base[other] == SENT):
                ctx.violation('%s:writes_outside_out' % kernel, case, 'cells outside the strided out view were modified: %r' % base.tolist())
    if not (np.array_equal(Xv, X0) and np.array_equal(yv, y0)):
        ctx.violation('%s:mutates_input' % kernel, case, 'X or y modified')


def input_cases(kernel, dtype, tier):
    A = alphabet(dtype)
    for f in (1, 2, 3):
        rows = list(itertools.product(A, repeat=f))
        if f == 3:
            rows = [r for r in rows if len(set(r)) > 1][::(2 if tier == 'quick' else 1)]
            ys = list(itertools.product(A[:1] + A[3:4] + A[-1:], repeat=3))
        elif f == 2:
            ys = list(itertools.product(A, repeat=2))
        else:
            ys = [(a,) for a in A]
        k = 0
        for y in ys:
            i = 0
            n = 1
            while i < len(rows):
                chunk = rows[i:i + n]
                i += n
                n = n % 4 + 1
                k += 1
                yield k, chunk, y


def check_invalid(ctx):
    from enspara.geometry import libdist
    X = np.arange(6, dtype=np.float64).reshape(3, 2)
    y = np.array([1.0, 2.0])
    menu = [
        ('X_rank1', lambda fn: fn(X[0], y)),
        ('X_rank3', lambda fn: fn(X[None], y)),
        ('y_rank2', lambda fn: fn(X, y[None])),
        ('y_rank0', lambda fn: fn(X, np.float64(1.0))),
        ('width_mismatch', lambda fn: fn(X, np.array([1.0, 2.0, 3.0]))),
        ('width_mismatch_short', lambda fn: fn(X, np.array([1.0]))),
        ('dtype_mismatch', lambda fn: fn(X, y.astype(np.float32))),
        ('dtype_mismatch_int', lambda fn: fn(X.astype(np.int32), y.astype(np.int64))),
        ('float16', lambda fn: fn(X.astype(np.float16), y.astype(np.float16))),
        ('complex', lambda fn: fn(X.astype(complex), y.astype(complex))),
        ('out_float32', lambda fn: fn(X, y, out=np.zeros(3, dtype=np.float32))),
        ('out_int', lambda fn: fn(X, y, out=np.zeros(3, dtype=np.int64))),
        ('out_short', lambda fn: fn(X, y, out=np.zeros(2))),
        ('out_long', lambda fn: fn(X, y, out=np.zeros(4))),
        ('out_rank2', lambda fn: fn(X, y, out=np.zeros((3, 1)))),
        ('out_rank2_wide', lambda fn: fn(X, y, out=np.zeros((3, 3)))),
    ]
    for kernel in KERNELS:
        fn = getattr(libdist, kernel)
        for name, thunk in menu:
            if kernel == 'hamming':
                # hamming only accepts integer types: float input is itself invalid
                pass
            ctx.ev()
            ctx.state(('invalid', kernel, name))
            case = {'kind': 'invalid', 'kernel': kernel, 'name': name}
            try:
                r = thunk(fn)
            except Exception:
                ctx.guard('invalid_rejected')
                continue
            ctx.violation('%s:invalid_accepted:%s' % (kernel, name), case, '%s accepted invalid input %s and returned %r' % (kernel, name, r))


# ---------------------------------------------------------------- schedules

def sched_inputs(dtype):
    dt = np.dtype(dtype)
    out = []
    for n in (1, 2, 3, 4):
        X = (np.arange(n * 2).reshape(n, 2) * 3 % 7).astype(dt)
        y = np.array([1, 2], dtype=dt)
        out.append((X, y, 'C'))
    # the same values in the other memory layouts (a kernel may take another loop nest for them)
    for n in (2, 4):
        X = (np.arange(n * 3).reshape(n, 3) * 3 % 7).astype(dt)
        y = np.array([1, 2, 4], dtype=dt)
        out.append((np.asfortranarray(X), y, 'F'))
        big = np.zeros((2 * n, 6), dtype=dt)
        big[::2, ::2] = X
        out.append((big[::2, ::2], y, 'strided'))
    return out


def check_sched(kernel, dtype, tier, ctx):
    from enspara.geometry import libdist
    from .. import sched
    fn = getattr(libdist, kernel)
    bound = 2 if tier == 'quick' else 4
    for X, y, lay in sched_inputs(dtype):
        n = len(X)
        if lay != 'C':
            ctx.guard('sched_noncontiguous_layout')
        want = np.array([oracle(kernel, row, y.tolist()) for row in X.tolist()])
        for T in list(range(1, n + 2)) + ([5, 8, 16] if n == 4 else []):
            outcomes = {}
            multi = [0]

            def run(prefix, T=T):
                out = np.full(n, SENT)
                pts, res = sched.run_with_schedule(EXT, T, prefix, lambda: fn(X, y, out=out))
                return pts, out.tobytes()

            def on_exec(choices, pts, outcome, T=T):
                ctx.ev()
                ctx.state(('sched', kernel, dtype, n, lay, T, choices), nontrivial=any(ne > 1 for ne, _ in pts))
                if any(ne > 1 for ne, _ in pts):
                    multi[0] += 1
                outcomes[outcome] = choices
                ctx.extra['schedules'] += 1

            b = bound if T <= n + 1 else 0
            if lay != 'C':
                b = min(b, 2)
            st = explore.dfs_choices(run, b, on_exec)
            if T > n + 1:
                # reversed default order for large thread counts
                pts, _ = run([])
                rev = [ne - 1 for ne, _ in pts]
                p2, o2 = run(rev)
                on_exec(tuple(rev), p2, o2)
            ctx.guard('multi_enabled', multi[0])
            case = {'kind': 'sched', 'kernel': kernel, 'dtype': dtype, 'n': n, 'T': T, 'layout': lay}
            if len(outcomes) != 1:
                ctx.violation('%s:schedule_dependent' % kernel, dict(case, schedules=[list(c) for c in outcomes.values()]),
                              '%d distinct results over thread schedules (T=%d, n=%d): %r' % (
                                  len(outcomes), T, n, [np.frombuffer(o).tolist() for o in outcomes]))
            got = np.frombuffer(next(iter(outcomes)))
            if not np.allclose(got, want, rtol=1e-12, atol=0):
                ctx.violation('%s:value_under_threads' % kernel, case, 'T=%d: %r, exact %r' % (T, got.tolist(), want.tolist()))
            # isolation runs: write sets of different threads must be disjoint and union to the full result
            if T <= n + 1 and T > 1:
                written = np.zeros(n, dtype=int)
                union = np.full(n, SENT)
                for k in range(T):
                    out = np.full(n, SENT)
                    sched.run_with_schedule(EXT, T, [], lambda: fn(X, y, out=out), only=k)
                    ctx.guard('isolation_runs')
                    ctx.ev()
                    w = out != SENT
                    written += w
                    union[w] = out[w]
                if (written > 1).any():
                    ctx.violation('%s:write_sets_overlap' % kernel, case, 'cells written by more than one thread: %r (T=%d)' % (written.tolist(), T))
                elif not np.allclose(union, want, rtol=1e-12, atol=0):
                    ctx.violation('%s:isolated_union_differs' % kernel, case, 'union of isolated thread results %r != %r' % (union.tolist(), want.tolist()))
    ctx.sample({'kind': 'sched', 'kernel': kernel, 'dtype': dtype, 'threads': 'T=1..n+1 (+5,8,16)', 'deviation_bound': bound})


FREE_SCRIPT = r'''
import sys, json, ctypes
sys.path.insert(0, %(verif)r)
from vf import build
build.install('omp')
import numpy as np
from enspara.geometry import libdist
gomp = ctypes.CDLL('libgomp.so.1')
res = {}
for kernel in ('euclidean', 'manhattan', 'hamming'):
    dt = np.int64 if kernel == 'hamming' else np.float64
    X = (np.arange(37 * 3).reshape(37, 3) * 5 %% 11).astype(dt)
    y = np.array([1, 2, 3], dtype=dt)
    Xw = ((np.arange(5 * 1500).reshape(5, 1500) * 7919 %% 1000) / 7.0).astype(np.float64)
    yw = ((np.arange(1500) * 31 %% 97) / 3.0).astype(np.float64)
    if kernel == 'hamming':
        Xw, yw = Xw.astype(np.int64), yw.astype(np.int64)
    XF = np.asfortranarray(X)
    XwF = np.asfortranarray(Xw[:, :256])
    for t in range(1, 17):
        gomp.omp_set_num_threads(t)
        res['%%s:%%d' %% (kernel, t)] = getattr(libdist, kernel)(X, y).tolist()
        res['F:%%s:%%d' %% (kernel, t)] = [getattr(libdist, kernel)(XF, y).tolist() for rep in range(5)]
        res['wideF:%%s:%%d' %% (kernel, t)] = [getattr(libdist, kernel)(XwF, yw[:256]).tobytes().hex() for rep in range(5)]
        res['wide:%%s:%%d' %% (kernel, t)] = getattr(libdist, kernel)(Xw, yw).tobytes().hex()
print('RESULT' + json.dumps(res))
import os; os._exit(0)
'''


def check_free(ctx):
    env = dict(os.environ)
    env.pop('OMP_NUM_THREADS', None)
    p = subprocess.run([sys.executable, '-c', FREE_SCRIPT % {'verif': build.VERIF}], capture_output=True, text=True, env=env, timeout=300)
    line = [l for l in p.stdout.splitlines() if l.startswith('RESULT')]
    if not line:
        raise RuntimeError('free-running pass failed: %s' % p.stderr[-2000:])
    res = json.loads(line[0][6:])
    for kernel in KERNELS:
        dt = np.int64 if kernel == 'hamming' else np.float64
        X = (np.arange(37 * 3).reshape(37, 3) * 5 % 11).astype(dt)
        y = np.array([1, 2, 3], dtype=dt)
        want = np.array([oracle(kernel, row, y.tolist()) for row in X.tolist()])
        for t in range(1, 17):
            ctx.ev()
            ctx.state(('free', kernel, t))
            ctx.guard('free_running_threads')
            got = np.array(res['%s:%d' % (kernel, t)])
            for rep in res['F:%s:%d' % (kernel, t)]:
                if not np.allclose(np.array(rep), want, rtol=1e-12, atol=0):
                    ctx.violation('%s:free_running_threads:fortran_order' % kernel, {'kind': 'free'},
                                  'real libgomp with %d threads, Fortran-ordered X: %r != %r' % (t, rep, want.tolist()))
                    break
            if len(set(res['wideF:%s:%d' % (kernel, t)]) | set(res['wideF:%s:1' % kernel])) != 1:
                ctx.violation('%s:thread_count_dependent:fortran_order' % kernel, {'kind': 'free'},
                              'real libgomp: Fortran-ordered 5 x 256 input gives bitwise different results with %d threads / repeated calls' % t)
            if res['wide:%s:%d' % (kernel, t)] != res['wide:%s:1' % kernel]:
                ctx.violation('%s:thread_count_dependent' % kernel, {'kind': 'free'},
                              'real libgomp: 5 x 1500 input gives a bitwise different result with %d threads than with 1' % t)
            if not np.allclose(got, want, rtol=1e-12, atol=0):
                ctx.violation('%s:free_running_threads' % kernel, {'kind': 'free'}, 'real libgomp with %d threads: %r != %r' % (t, got.tolist(), want.tolist()))
    ctx.sample({'kind': 'free', 'threads': '1..16', 'rows': 37})


def check_names(ctx):
    """metric names map to the kernels that compute that metric (through the clustering utilities)"""
    from enspara.cluster import util
    from enspara.cluster import KCenters
    names = {'euclidean': 'euclidean', 'manhattan': 'manhattan', 'cityblock': 'manhattan'}
    X = np.array([[0.0, 0.0], [3.0, 4.0], [1.0, -2.0], [-5.0, 12.0]])
    y = np.array([0.0, 0.0])
    for name, kernel in names.items():
        for dt in ('float64', 'int32'):
            ctx.ev()
            ctx.guard('metric_names')
            case = {'kind': 'names', 'name': name, 'dtype': dt}
            ctx.state(('names', name, dt))
            Xd, yd = X.astype(dt), y.astype(dt)
            want = np.array([oracle(kernel, row, yd.tolist()) for row in Xd.tolist()])
            try:
                f = util._get_distance_method(name)
                got = np.asarray(f(Xd, yd)).ravel()
                if not np.allclose(got, want, rtol=1e-12, atol=0):
                    ctx.violation('names:%s:wrong_kernel' % name, case, 'metric name %r computes %r, the %s distances are %r' % (name, got.tolist(), kernel, want.tolist()))
                e = KCenters(name, n_clusters=1).fit(Xd)
                d = np.asarray(e.predict(Xd).distances)
                want0 = np.array([oracle(kernel, row, Xd[0].tolist()) for row in Xd.tolist()])
                if not np.allclose(d, want0, rtol=1e-12, atol=0):
                    ctx.violation('names:%s:estimator_distances' % name, case, 'KCenters(metric=%r) distances %r, expected %r' % (name, d.tolist(), want0.tolist()))
            except Exception as e:
                ctx.violation('names:%s:raises:%s' % (name, type(e).__name__), case, repr(e))
    ctx.sample(case)


def check_wide_rows(ctx):
    """few rows x many features: the result must be bit-identical for every thread count and schedule"""
    from enspara.geometry import libdist
    from .. import sched
    for kernel in ('euclidean', 'manhattan'):
        for n, f in ((1, 1024), (3, 1030), (7, 2048), (8, 1024)):
            X = ((np.arange(n * f).reshape(n, f) * 7919 % 1000) / 7.0).astype(np.float64)
            y = ((np.arange(f) * 31 % 97) / 3.0).astype(np.float64)
            fn = getattr(libdist, kernel)
            outs = {}
            for T in (1, 2, 3, 4, 7, 16):
                for order in ('def', 'rev'):
                    ctx.ev()
                    ctx.guard('wide_rows')
                    pts, res = sched.run_with_schedule(EXT, T, [99] * 4000 if order == 'rev' else [], lambda: fn(X, y))
                    ctx.state(('wide', kernel, n, f, T, order), nontrivial=T > 1)
                    outs.setdefault(res.tobytes(), []).append((T, order))
            want = np.array([oracle(kernel, row, y.tolist()) for row in X.tolist()])
            case = {'kind': 'wide_rows', 'kernel': kernel, 'n': n, 'f': f}
            if len(outs) != 1:
                ctx.violation('%s:thread_count_dependent' % kernel, case, '%d bitwise-different results over thread counts/orders: %r' % (
                    len(outs), list(outs.values())))
            got = np.frombuffer(next(iter(outs)))
            if not np.allclose(got, want, rtol=1e-12, atol=0):
                ctx.violation('%s:value:wide_rows' % kernel, case, '%r vs %r' % (got.tolist(), want.tolist()))
    ctx.sample(case)


def run_shard(sh, ctx):
    kind, tier, a, b = sh
    if kind == 'names':
        check_names(ctx)
        check_wide_rows(ctx)
        return
    if kind == 'inputs':
        kernel, dtype = a, b
        for k, rows, y in input_cases(kernel, dtype, tier):
            lay = LAYOUTS[k % len(LAYOUTS)]
            outm = OUTS[(k // len(LAYOUTS)) % len(OUTS)]
            combos = [(lay, outm)]
            if k % 7 == 0:
                combos = [(l, o) for l in LAYOUTS for o in OUTS]
            for l, o in combos:
                case = {'kind': 'call', 'kernel': kernel, 'dtype': dtype, 'layout': l, 'out': o,
                        'rows': [list(r) for r in rows], 'y': list(y)}
                check_call(case, ctx)
        ctx.sample(case)
    elif kind == 'invalid':
        check_invalid(ctx)
        ctx.sample({'kind': 'invalid', 'menu': 'rank/width/dtype/out mismatches x 3 kernels'})
    elif kind == 'sched':
        check_sched(a, b, tier, ctx)
    else:
        check_free(ctx)


def replay(case, ctx):
    if case['kind'] == 'call':
        check_call(case, ctx)
    elif case['kind'] == 'invalid':
        check_invalid(ctx)
    elif case['kind'] == 'names':
        check_names(ctx)
    elif case['kind'] == 'wide_rows':
        check_wide_rows(ctx)
    elif case['kind'] == 'sched':
        check_sched(case['kernel'], case['dtype'], ctx.tier, ctx)
    else:
        check_free(ctx)
