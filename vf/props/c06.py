"""C06 - ragged-array writes keep all views coherent over any operation history.

E3 explicit-state BFS: a state is reached by replaying an operation list on a fresh real RaggedArray (paired with
the list-of-rows model); from every state every operation of the alphabet is applied; the invariant is evaluated
in every state through every observer.  Canonical key = abstract content + representation fingerprint.
"""
import itertools

import numpy as np

from .. import explore
from ..models import raref as rr

ID = 'C06'
ENGINE = 'E3-explicit-state-bfs'
TECHNIQUE = ('explicit-state BFS over operation histories replayed on the real object, deduplicated by content + '
             'representation fingerprint, list-of-rows reference model checked through every observer in every state')
RULE = ('initial arrays: lengths {(2,),(1,2),(2,2),(3,1,2)} x constructors {nested, flat+lengths, copy=False} x dtypes '
        '{int64,float64}; alphabet: element / row / same-length float row (promotes an int array) / row-slice / (row,col-slice) / (slice,slice) / (slice|row list, stepped col-slice with steps 2,-1,-2) / paired-list / mask assignment / masked augmented assignment (also of an empty selection), '
        'append (rows | RaggedArray | single row), augmented arithmetic (rebinding), plus non-mutating operators checked in '
        'every state; BFS depth 3 (T: 4); state key = (rows, dtype, representation fingerprint); non-trivial = state at depth>=1 '
        'whose representation fingerprint differs from its initial array')
ASSUMPTIONS = ['values written are representable in the array dtype (no truncation semantics tested), except the whole-row write row_f whose promotion the list-of-rows model defines',
               'observer set: iteration, ra[i], ra[i,j] for every cell, flatten, _data vs rows, lengths, starts, size, shape, '
               'dtype, ==/< against a freshly built array, max/min/any/all']
GUARDS = {'mask_allfalse': 20, 'append': 100, 'augmented': 100, 'operators_checked': 1000, 'alias_probe': 20,
          'fingerprint_changed': 20}
INITS = [(lengths, how, dt) for lengths in ((2,), (1, 2), (2, 2), (3, 1, 2))
         for how in ('nested', 'flat', 'nocopy') for dt in ('int64', 'float64')]


def shards(tier, seed):
    return [(tier, i) for i in range(len(INITS))] + [('alias', 0)]


def build(rows, how):
    from enspara import ra
    if how == 'nested':
        return ra.RaggedArray([r.tolist() for r in rows]) if rows[0].dtype.kind == 'f' else ra.RaggedArray([r.copy() for r in rows])
    flat = np.concatenate(rows)
    L = np.array([len(r) for r in rows])
    if how == 'flat':
        return ra.RaggedArray(flat, lengths=L)
    return ra.RaggedArray(flat, lengths=L, copy=False)


def alphabet(rows):
    n = len(rows)
    L = [len(r) for r in rows]
    ops = []
    ops.append(('cell', 0, 0, 91))
    ops.append(('cell', n - 1, L[-1] - 1, 92))
    ops.append(('cell', -1, -1, 93))
    ops.append(('row', 0, [70 + k for k in range(L[0])]))
    ops.append(('row', n - 1, [80 + k for k in range(L[-1])]))
    # a same-length float row: replacing a row of an integer array promotes the whole array, as concatenating the
    # model's rows does (the one write whose value is NOT representable in the old dtype; ASSUMPTIONS)
    ops.append(('row_f', 0, [70.5 + k for k in range(L[0])]))
    if n >= 2:
        ops.append(('rowslice', 0, 2, [[60 + k for k in range(L[0])], [65 + k for k in range(L[1])]]))
    ops.append(('int_slice', n - 1, 0, None, 55))
    ops.append(('int_slice', 0, None, 1, 56))
    ops.append(('slice_slice', None, None, 0, 1, 57))
    ops.append(('slice_slice', 0, 1, None, None, 58))
    ops.append(('slice_step', None, None, None, None, -2, 59))      # a[:, ::-2] = v : stride anchored at each row's own end
    ops.append(('slice_step', None, None, None, None, 2, 61))
    ops.append(('slice_step', None, None, 1, None, -1, 62))
    ops.append(('list_step', [n - 1, 0], None, None, -2, 63))
    cells = [(i, j) for i in range(n) for j in range(L[i])]
    ops.append(('pairs', [cells[0], cells[-1]], [41, 42]))
    ops.append(('pairs', [cells[-1]], [43]))
    ops.append(('mask_gt', 50, 44))
    ops.append(('mask_gt', 10 ** 6, 45))        # all-False mask: must be a no-op
    ops.append(('mask_le', 10 ** 6, 46))        # all-True
    ops.append(('mask_aug', 50, 7))             # a[a > t] += d : read-modify-write of a selection
    ops.append(('mask_aug', 10 ** 6, 7))        # ... of an empty selection: must be a no-op
    ops.append(('append_rows', [[31, 32], [33]]))
    ops.append(('append_row', [34]))
    ops.append(('append_ra', [[35], [36, 37]]))
    ops.append(('aug', '+', 1))
    ops.append(('aug', '*', 2))
    ops.append(('aug', '-', 'self'))
    return ops


def apply_model(rows, op):
    rows = [r.copy() for r in rows]
    k = op[0]
    if k == 'cell':
        rows[op[1]][op[2]] = op[3]
    elif k == 'row':
        rows[op[1]] = np.array(op[2], dtype=rows[0].dtype)
    elif k == 'row_f':
        rows[op[1]] = np.array(op[2], dtype=float)
        dt = np.result_type(*[r.dtype for r in rows])
        rows = [r.astype(dt) for r in rows]
    elif k == 'rowslice':
        rows[op[1]:op[2]] = [np.array(r, dtype=rows[0].dtype) for r in op[3]]
    elif k == 'int_slice':
        rows[op[1]][op[2]:op[3]] = op[4]
    elif k == 'slice_slice':
        for r in rows[op[1]:op[2]]:
            r[op[3]:op[4]] = op[5]
    elif k == 'slice_step':
        for r in rows[op[1]:op[2]]:
            r[op[3]:op[4]:op[5]] = op[6]
    elif k == 'list_step':
        for i in op[1]:
            rows[i][op[2]:op[3]:op[4]] = op[5]
    elif k == 'pairs':
        for (i, j), v in zip(op[1], op[2]):
            rows[i][j] = v
    elif k == 'mask_gt':
        for r in rows:
            r[r > op[1]] = op[2]
    elif k == 'mask_le':
        for r in rows:
            r[r <= op[1]] = op[2]
    elif k == 'mask_aug':
        for r in rows:
            r[r > op[1]] += op[2]
    elif k in ('append_rows', 'append_ra'):
        rows += [np.array(r, dtype=rows[0].dtype) for r in op[1]]
    elif k == 'append_row':
        rows.append(np.array(op[1], dtype=rows[0].dtype))
    elif k == 'aug':
        if op[1] == '+':
            rows = [r + op[2] for r in rows]
        elif op[1] == '*':
            rows = [r * op[2] for r in rows]
        else:
            rows = [r - r for r in rows]
    return rows


def apply_real(A, op):
    """apply op to the real array; returns the array that represents the state afterwards"""
    from enspara import ra
    k = op[0]
    if k == 'cell':
        A[op[1], op[2]] = op[3]
    elif k == 'row':
        A[op[1]] = np.array(op[2], dtype=A.dtype)
    elif k == 'row_f':
        A[op[1]] = np.array(op[2], dtype=float)
    elif k == 'rowslice':
        A[op[1]:op[2]] = ra.RaggedArray([np.array(r, dtype=A.dtype) for r in op[3]])
    elif k == 'int_slice':
        A[op[1], op[2]:op[3]] = op[4]
    elif k == 'slice_slice':
        A[op[1]:op[2], op[3]:op[4]] = op[5]
    elif k == 'slice_step':
        A[op[1]:op[2], op[3]:op[4]:op[5]] = op[6]
    elif k == 'list_step':
        A[list(op[1]), op[2]:op[3]:op[4]] = op[5]
    elif k == 'pairs':
        # negative ndarray index arrays: they are the caller's arguments and must not be rewritten
        n_rows = len(A.lengths)
        r = np.array([i - n_rows for i, _ in op[1]])
        c = np.array([j - int(A.lengths[i]) for i, j in op[1]])
        r0, c0 = r.copy(), c.copy()
        A[r, c] = op[2]
        got = A[r, c]
        if not (np.array_equal(r, r0) and np.array_equal(c, c0)):
            raise AssertionError('index arrays passed to __setitem__/__getitem__ were modified: %r,%r -> %r,%r' % (r0, c0, r, c))
        if np.asarray(got).tolist() != list(op[2]):
            raise AssertionError('read-back through the same index arrays gives %r, wrote %r' % (np.asarray(got).tolist(), op[2]))
    elif k == 'mask_gt':
        A[A > op[1]] = op[2]
    elif k == 'mask_le':
        A[A <= op[1]] = op[2]
    elif k == 'mask_aug':
        A[A > op[1]] += op[2]
    elif k == 'append_rows':
        A.append([np.array(r, dtype=A.dtype) for r in op[1]])
    elif k == 'append_row':
        A.append(np.array(op[1], dtype=A.dtype))
    elif k == 'append_ra':
        A.append(ra.RaggedArray([np.array(r, dtype=A.dtype) for r in op[1]]))
    elif k == 'aug':
        alias = A
        before = [np.asarray(r).copy() for r in alias]
        if op[1] == '+':
            A += op[2]
        elif op[1] == '*':
            A *= op[2]
        else:
            A -= A
        after = [np.asarray(r) for r in alias]
        if A is alias or any(not np.array_equal(a, b) for a, b in zip(before, after)):
            raise AssertionError('augmented assignment altered the original object')
    return A


def fingerprint(A):
    arr = A._array
    kind = type(arr).__name__
    nd = getattr(arr, 'ndim', None)
    dt = str(getattr(arr, 'dtype', None))
    share = None
    try:
        share = bool(len(arr) and np.shares_memory(np.asarray(arr[0]), A._data))
    except Exception:
        share = 'err'
    return (kind, nd, dt, share, type(A.lengths).__name__, str(A._data.dtype))


def invariant(A, rows, ctx, case):
    """every observer agrees with the model; returns list of (clause, msg)"""
    from enspara import ra
    bad = []
    dt = rows[0].dtype
    L = [len(r) for r in rows]
    flat = np.concatenate(rows)

    def ck(name, fn):
        try:
            r = fn()
            if not (isinstance(r, (bool, np.bool_)) and bool(r)):
                bad.append((name, r))
        except Exception as e:
            bad.append((name, 'raised %r' % (e,)))
    ck('lengths', lambda: list(A.lengths) == L or 'lengths %r != %r' % (list(A.lengths), L))
    ck('starts', lambda: list(A.starts) == np.concatenate([[0], np.cumsum(L)[:-1]]).tolist() or 'starts %r' % (list(A.starts),))
    ck('len', lambda: len(A) == len(rows) or 'len %r' % len(A))
    ck('dtype', lambda: A.dtype == dt or 'dtype %s != %s' % (A.dtype, dt))
    ck('size', lambda: A.size == flat.size or 'size %r != %r' % (A.size, flat.size))
    ck('flatten', lambda: (A.flatten().dtype == dt and A.flatten().tolist() == flat.tolist()) or 'flatten %r (%s) != %r' % (
        A.flatten().tolist(), A.flatten().dtype, flat.tolist()))
    ck('data', lambda: np.asarray(A._data).tolist() == flat.tolist() or '_data %r != %r' % (np.asarray(A._data).tolist(), flat.tolist()))
    ck('iteration', lambda: [np.asarray(r).tolist() for r in A] == [r.tolist() for r in rows] or 'iteration %r != %r' % (
        [np.asarray(r).tolist() for r in A], [r.tolist() for r in rows]))
    ck('rows', lambda: all(np.asarray(A[i]).tolist() == rows[i].tolist() for i in range(len(rows))) or 'A[i] differs')
    ck('cells', lambda: all(A[i, j] == rows[i][j] for i in range(len(rows)) for j in range(L[i])) or 'A[i,j] differs')
    second = L[0] if len(set(L)) == 1 else None
    ck('shape', lambda: tuple(A.shape) == (len(rows), second) or 'shape %r != %r' % (tuple(A.shape), (len(rows), second)))
    ck('max', lambda: (A.max() == flat.max() and A.min() == flat.min()) or 'max/min %r %r' % (A.max(), A.min()))
    ck('any_all', lambda: (bool(A.any()) == bool(flat.any()) and bool(A.all()) == bool(flat.all())) or 'any/all')
    fresh = ra.RaggedArray([r.copy() for r in rows])
    ck('eq_fresh', lambda: bool((A == fresh).all()) or 'A == fresh is not all True')
    ck('lt_fresh', lambda: (not bool((A < fresh).any())) or 'A < fresh has a True')
    ck('eq_structure', lambda: list((A == fresh).lengths) == L or 'comparison lost the row structure')
    # operators: element-wise, keep structure, new objects, operands unchanged
    for sym, f in (('+', lambda a, b: a + b), ('-', lambda a, b: a - b), ('*', lambda a, b: a * b),
                   ('>=', lambda a, b: a >= b), ('!=', lambda a, b: a != b)):
        for other_kind in ('scalar', 'ra'):
            def run(sym=sym, f=f, other_kind=other_kind):
                other = 3 if other_kind == 'scalar' else ra.RaggedArray([r.copy() + 1 for r in rows])
                omodel = 3 if other_kind == 'scalar' else [r + 1 for r in rows]
                res = f(A, other)
                want = [f(r, (omodel if other_kind == 'scalar' else omodel[i])) for i, r in enumerate(rows)]
                if res is A or (other_kind == 'ra' and res is other):
                    return 'operator %s returned an operand' % sym
                if not hasattr(res, 'lengths') or list(res.lengths) != L:
                    return 'operator %s lost the row structure' % sym
                if [np.asarray(r).tolist() for r in res] != [w.tolist() for w in want]:
                    return 'operator %s (%s): %r != %r' % (sym, other_kind, [np.asarray(r).tolist() for r in res], [w.tolist() for w in want])
                if np.asarray(A._data).tolist() != flat.tolist():
                    return 'operator %s modified its left operand' % sym
                if other_kind == 'ra' and [np.asarray(r).tolist() for r in other] != [w.tolist() for w in omodel]:
                    return 'operator %s modified its right operand' % sym
                if np.shares_memory(res._data, A._data):
                    return 'operator %s result aliases its operand' % sym
                return True
            ck('operator', run)
            ctx.guard('operators_checked')
    # comparisons on data containing NaN (float arrays): every operator must equal the per-row numpy result
    if dt.kind == 'f':
        def run_nan():
            rows_n = [r.copy() for r in rows]
            rows_n[0][0] = np.nan
            if len(rows_n[-1]) > 1:
                rows_n[-1][-1] = np.nan
            An = ra.RaggedArray([r.copy() for r in rows_n])
            Bn = ra.RaggedArray([r[::-1].copy() for r in rows_n])
            for sym, f in (('<', lambda a, b: a < b), ('<=', lambda a, b: a <= b), ('>', lambda a, b: a > b),
                           ('>=', lambda a, b: a >= b), ('==', lambda a, b: a == b), ('!=', lambda a, b: a != b)):
                for other, omodel in ((4.0, None), (Bn, [r[::-1] for r in rows_n])):
                    res = f(An, other)
                    want = [f(r, 4.0 if omodel is None else omodel[i]) for i, r in enumerate(rows_n)]
                    if [np.asarray(r).tolist() for r in res] != [w.tolist() for w in want]:
                        return 'comparison %s with NaN present: %r != %r' % (sym, [np.asarray(r).tolist() for r in res], [w.tolist() for w in want])
                    if omodel is None:
                        res2 = f(4.0, An)
                        want2 = [f(4.0, r) for r in rows_n]
                        if [np.asarray(r).tolist() for r in res2] != [w.tolist() for w in want2]:
                            return 'reflected comparison %s with NaN present differs' % sym
            sel = An[An <= 4.0]
            wsel = np.concatenate(rows_n)
            wsel = wsel[wsel <= 4.0]
            if np.asarray(sel).tolist() != wsel.tolist():
                return 'mask a[a <= 4.0] with NaN present: %r != %r' % (np.asarray(sel).tolist(), wsel.tolist())
            return True
        ck('comparison_nan', run_nan)
    # numpy scalars are scalars too (left and right operand)
    for sym, f in (('-', lambda a, b: a - b), ('*', lambda a, b: a * b), ('<', lambda a, b: a < b)):
        for side in ('left', 'right'):
            def run2(sym=sym, f=f, side=side):
                sc = np.float64(3.0) if dt.kind == 'f' else np.int64(3)
                res = f(sc, A) if side == 'left' else f(A, sc)
                want = [f(sc, r) if side == 'left' else f(r, sc) for r in rows]
                if not hasattr(res, 'lengths') or list(res.lengths) != L:
                    return 'numpy scalar on the %s of %s: result %r is not a ragged array with the same rows' % (side, sym, type(res).__name__)
                if [np.asarray(r).tolist() for r in res] != [w.tolist() for w in want]:
                    return 'numpy scalar on the %s of %s: %r != %r' % (side, sym, [np.asarray(r).tolist() for r in res], [w.tolist() for w in want])
                return True
            ck('operator_numpy_scalar', run2)
    # operands with a different row structure (same total size) cannot be combined element-wise
    if len(L) >= 2:
        L2 = L[1:] + L[:1] if len(set(L)) > 1 else [L[0] - 1] + L[1:-1] + [L[-1] + 1]
        if all(x > 0 for x in L2) and L2 != L:
            def run3():
                other = ra.RaggedArray(flat.copy(), lengths=np.array(L2))
                try:
                    res = A + other
                except Exception:
                    return True
                return 'A + B with row lengths %r and %r returned %r instead of raising' % (L, L2, [np.asarray(r).tolist() for r in res])
            ck('operator_structure_mismatch', run3)
    if dt.kind == 'i':
        ck('invert', lambda: ([np.asarray(r).tolist() for r in ~A] == [(~r).tolist() for r in rows] and
                              np.asarray(A._data).tolist() == flat.tolist()) or '~A wrong or modified A')
    return bad


def explore_init(i, tier, ctx):
    lengths, how, dt = INITS[i]
    rows0 = rr.mk_rows(lengths, dt)
    depth = 3 if tier == 'quick' else 4
    fp0 = [None]

    def realize(hist):
        A = build([r.copy() for r in rows0], how)
        rows = [r.copy() for r in rows0]
        for op in hist:
            A = apply_real(A, op)
            rows = apply_model(rows, op)
        return A, rows

    def key(st):
        hist, rows, fp = st
        return (tuple(tuple(r.tolist()) for r in rows), str(rows[0].dtype), fp)

    def make_state(hist):
        """returns state or None (violation recorded)"""
        case = {'init': i, 'history': [list(map(_j, op)) for op in hist]}
        try:
            A, rows = realize(hist)
        except Exception as e:
            op = hist[-1]
            extra = ''
            if op[0].startswith('mask') and not _mask_hits(realize_model(hist[:-1]), op):
                extra = ':allfalse'
            ctx.violation('write:%s:raises:%s%s' % (op[0], type(e).__name__, extra), case,
                          'history %r raised %r (initial lengths %r, %s, %s)' % (hist, e, lengths, how, dt))
            return None
        try:
            fp = fingerprint(A)
        except Exception as e:
            ctx.violation('write:%s:broken_object' % hist[-1][0], case, 'fingerprint failed after %r: %r' % (hist, e))
            return None
        bad = invariant(A, rows, ctx, case)
        for clause, msg in bad:
            last = hist[-1][0] if hist else 'construct'
            ctx.violation('after_%s:%s' % (last, clause), case,
                          'after history %r on initial %r/%s/%s: %s' % (hist, lengths, how, dt, msg))
        if bad:
            return None
        return (hist, rows, fp)

    def realize_model(hist):
        rows = [r.copy() for r in rows0]
        for op in hist:
            rows = apply_model(rows, op)
        return rows

    init = make_state(())
    if init is None:
        return
    fp0[0] = init[2]

    def actions(st):
        return alphabet(st[1])

    def step(st, op):
        ctx.ev()
        if op[0].startswith('append'):
            ctx.guard('append')
        if op[0] == 'aug':
            ctx.guard('augmented')
        if op[0].startswith('mask') and not _mask_hits(st[1], op):
            ctx.guard('mask_allfalse')
        return make_state(st[0] + (op,))

    def on_state(st, d):
        changed = d > 0 and st[2] != fp0[0]
        if changed:
            ctx.guard('fingerprint_changed')
        ctx.state(('c06', i, key(st)), nontrivial=changed)

    stats = explore.bfs([init], actions, step, key, depth, on_state=on_state)
    ctx.extra['bfs_states'] += stats['states']
    ctx.maxi('max_depth', stats['max_depth'])
    ctx.sample({'init': {'lengths': lengths, 'constructor': how, 'dtype': dt}, 'depth': depth,
                'alphabet': [op[0] for op in alphabet(rows0)], 'states': stats['states'], 'transitions': stats['transitions']})


def _mask_hits(rows, op):
    flat = np.concatenate(rows)
    return bool((flat > op[1]).any()) if op[0] == 'mask_gt' else bool((flat <= op[1]).any())


def _j(x):
    return x


def check_alias(ctx):
    from enspara import ra
    for lengths in ((2,), (1, 2), (2, 2), (3, 1, 2)):
        for dt in ('int64', 'float64'):
            for how in ('arrays', 'flat', 'flat_list'):
                ctx.ev()
                ctx.guard('alias_probe')
                ctx.state(('alias', lengths, dt, how))
                rows = rr.mk_rows(lengths, dt)
                case = {'alias': True, 'lengths': list(lengths), 'dtype': dt, 'how': how}
                if how == 'arrays':
                    src = [r.copy() for r in rows]
                    A = ra.RaggedArray(src)
                    bufs = src
                else:
                    flat = np.concatenate(rows)
                    L = [len(r) for r in rows]
                    Larr = np.array(L)
                    A = ra.RaggedArray(flat, lengths=L if how == 'flat_list' else Larr)
                    bufs = [flat]
                    if how == 'flat':
                        # the caller's lengths array is caller data too
                        B = A * 2
                        if np.shares_memory(np.asarray(A.lengths), Larr):
                            ctx.violation('construct:aliases_caller_lengths', case, 'lengths attribute shares memory with the caller array')
                        Larr[:] = Larr[::-1] + 1
                        for name, obj, want in (('array', A, rows), ('operator result', B, [r * 2 for r in rows])):
                            try:
                                same = list(obj.lengths) == L and [np.asarray(r).tolist() for r in obj] == [w.tolist() for w in want] \
                                    and all(obj[i, j] == want[i][j] for i in range(len(L)) for j in range(L[i])) \
                                    and [np.asarray(r).tolist() for r in (obj + 0)] == [w.tolist() for w in want]
                                why = 'lengths %r (want %r)' % (list(obj.lengths), L)
                            except Exception as e:
                                same, why = False, 'reading it now raises %r' % (e,)
                            if not same:
                                ctx.violation('construct:aliases_caller_lengths', case,
                                              'overwriting the caller lengths array changed the %s: %s' % (name, why))
                                break
                if any(np.shares_memory(b, A._data) for b in bufs):
                    ctx.violation('construct:aliases_caller:%s' % how, case, 'copy-constructed array shares memory with the caller data')
                for b in bufs:
                    b += 1000
                if [np.asarray(r).tolist() for r in A] != [r.tolist() for r in rows]:
                    ctx.violation('construct:aliases_caller:%s' % how, case, 'mutating the caller buffer changed the array')
                # writing into the array must not reach the caller's data either
                try:
                    A[0, 0] = -5
                    if any((b == -5).any() for b in bufs):
                        ctx.violation('construct:write_through:%s' % how, case, 'write reached the caller buffer')
                except Exception as e:
                    ctx.violation('construct:aliases_caller:%s' % how, case, 'after the caller changed its own buffers a write raises %r' % (e,))
    ctx.sample({'alias_probe': 'all initial shapes x dtypes x constructors'})


def run_shard(sh, ctx):
    if sh[0] == 'alias':
        check_alias(ctx)
    else:
        explore_init(sh[1], sh[0], ctx)


def replay(case, ctx):
    if case.get('alias'):
        check_alias(ctx)
        return
    i = case['init']
    lengths, how, dt = INITS[i]
    rows0 = rr.mk_rows(lengths, dt)
    hist = tuple(tuple(op) for op in case['history'])
    # re-run exactly this history through the same judge used by the BFS
    A = None
    rows = [r.copy() for r in rows0]
    c = {'init': i, 'history': [list(op) for op in hist]}
    ctx.ev()
    try:
        A = build([r.copy() for r in rows0], how)
        for op in hist:
            op = _unj(op)
            A = apply_real(A, op)
            rows = apply_model(rows, op)
    except Exception as e:
        op = _unj(hist[-1])
        extra = ''
        try:
            m = [r.copy() for r in rows0]
            for o in hist[:-1]:
                m = apply_model(m, _unj(o))
            if op[0].startswith('mask') and not _mask_hits(m, op):
                extra = ':allfalse'
        except Exception:
            pass
        ctx.violation('write:%s:raises:%s%s' % (op[0], type(e).__name__, extra), c, 'history %r raised %r' % (hist, e))
        return
    try:
        fingerprint(A)
    except Exception as e:
        ctx.violation('write:%s:broken_object' % hist[-1][0], c, 'fingerprint failed: %r' % (e,))
        return
    for clause, msg in invariant(A, rows, ctx, c):
        last = hist[-1][0] if hist else 'construct'
        ctx.violation('after_%s:%s' % (last, clause), c, msg)


def _unj(op):
    def fix(x):
        if isinstance(x, list):
            return [fix(v) for v in x]
        return x
    op = list(op)
    if op[0] == 'pairs':
        op[1] = [tuple(p) for p in op[1]]
    return tuple(op)
