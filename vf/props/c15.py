"""C15 - stored and bulk-loaded data come back bit-identical.

E1: ra.save / ra.load over row counts (incl. zero-padding boundaries), lengths x strides (every residue),
element ranks, dtypes, compression, key subsets, rectangular input, old-style files.
E2: load_as_concatenated on synthetic trajectory files under the simulated worker pool: ALL task completion
orders (choice-prefix DFS) x worker counts x stride x atom selection x lengths hint; then the real pool.
"""
import itertools
import os
import shutil
import tempfile

import numpy as np

from .. import explore

ID = 'C15'
ENGINE = 'E2-choice-prefix-dfs'
TECHNIQUE = ('small-scope enumeration of save/load configurations + stateless choice-prefix DFS over all worker '
             'completion orders of the real loader running on a simulated multiprocessing pool')
RULE = ('save/load: row counts 1..12 and {99,100,101} (T: 1..120, 999,1000,1001) x row lengths 1..7 x stride 1..8 x element rank '
        '1..3 x dtypes {int8,int32,int64,float32,float64,bool} x compression {0,1,9} x every ordered key subset of <=3 rows '
        '(on 5-row arrays) x ndarray input x old-style file (plain, strided, and read with default keys: must warn, not fail); every stored 1-D array also through the bulk loader load_h5_as_striped on a one-rank world (lengths and concatenated data); load_as_concatenated: all length vectors in {1..3}^k, k=2,3 '
        '(+ two k=4) x {xtc,h5} x stride {1,2,3} x atom selection x lengths hint x processes {1..4} x ALL completion orders; arrays returned earlier in a shard are re-read after all later loads; '
        'state=(configuration, schedule); non-trivial = ragged array with unequal rows and stride>1 / schedule with a '
        'non-default completion order')
ASSUMPTIONS = ['the simulated pool executes tasks in-process in the chosen order and returns results in input order (as '
               'multiprocessing.Pool does); the real pool is additionally run free for processes 1..4',
               'a one-row RaggedArray is documented to load back as the bare row (numpy array); compared as such',
               'bit-identical comparison (tobytes + dtype) everywhere']
GUARDS = {'bulk_h5': 50, 'held_results': 20, 'ragged_stride': 100, 'keys_subset': 50, 'padding_boundary': 3, 'nondefault_order': 200, 'real_pool': 8,
          'no_hint': 50, 'atom_selection': 50, 'frame_kwarg': 5, 'old_style': 5}
DTYPES = ('int8', 'int32', 'int64', 'float32', 'float64', 'bool')


def shards(tier, seed):
    sh = [('saveload', tier, i) for i in range(16)]
    sh += [('bulk', tier, i) for i in range(12)]
    sh += [('realpool', tier, 0)]
    return sh


# ------------------------------------------------------------------ save / load

def make_rows(lengths, dtype, rank, salt=0):
    rows = []
    v = salt
    for L in lengths:
        shape = (L,) + (2,) * (rank - 1)
        n = int(np.prod(shape))
        a = (np.arange(v, v + n) * 7 + 3) % 251
        v += n
        if dtype == 'bool':
            a = a % 2
        elif dtype.startswith('float'):
            a = a / 8.0 - 11.5
        else:
            a = a - 100 if dtype != 'int8' else a % 120 - 60
        rows.append(a.astype(dtype).reshape(shape))
    return rows


def rows_equal(got, want):
    if len(got) != len(want):
        return 'row count %d != %d' % (len(got), len(want))
    for i, (g, w) in enumerate(zip(got, want)):
        g = np.asarray(g)
        if g.dtype != w.dtype:
            return 'row %d dtype %s != %s' % (i, g.dtype, w.dtype)
        if g.shape != w.shape or g.tobytes() != np.ascontiguousarray(w).tobytes():
            return 'row %d: %r != %r' % (i, g.tolist(), w.tolist())
    return None


def as_rows(obj, single_row_quirk):
    from enspara import ra
    if isinstance(obj, ra.RaggedArray):
        return [np.asarray(r) for r in obj]
    if single_row_quirk:
        return [np.asarray(obj)]
    return [np.asarray(r) for r in obj]


def check_saveload(case, ctx):
    from enspara import ra
    lengths, dtype, rank = case['lengths'], case['dtype'], case['rank']
    stride, comp, keys, kind = case['stride'], case['comp'], case['keys'], case['input']
    ctx.ev()
    ragged = len(set(lengths)) > 1
    ctx.state(('sl', tuple(lengths), dtype, rank, stride, comp, None if keys is None else tuple(keys), kind),
              nontrivial=ragged and stride > 1)
    if ragged and stride > 1:
        ctx.guard('ragged_stride')
    if len(lengths) in (10, 11, 100, 101, 1000, 1001):
        ctx.guard('padding_boundary')
    rows = make_rows(lengths, dtype, rank)
    tmp = tempfile.mkdtemp(prefix='vfc15-')
    try:
        fn = os.path.join(tmp, 'a.h5')
        if kind == 'ndarray':
            arr = np.array(rows)          # rectangular
            ra.save(fn, arr, compression_level=comp)
            # which axis a stride applies to for a rectangular array stored as ONE node is not defined by the
            # statement (rows vs frames); only the plain round trip is asserted for ndarray input
            back = ra.load(fn)
            want = arr
            if not isinstance(back, np.ndarray) or back.dtype != want.dtype or back.tobytes() != np.ascontiguousarray(want).tobytes():
                ctx.violation('saveload:ndarray', case, 'ndarray round trip: %r != %r' % (np.asarray(back).tolist(), want.tolist()))
            return
        if kind == 'oldstyle':
            a = ra.RaggedArray([r for r in rows])
            from enspara.ra import ra as ramod
            ramod._save_old_style(fn, a)
            back = ra.load(fn, keys=None)
            ctx.guard('old_style')
            err = rows_equal(as_rows(back, False), rows)
            if err:
                ctx.violation('saveload:oldstyle', case, 'old-style round trip: %s' % err)
                return
            if stride > 1:
                # a strided load equals slicing the full load ([:, ::stride], as for new-style files)
                ctx.ev()
                back = ra.load(fn, keys=None, stride=stride)
                err = rows_equal(as_rows(back, False), [r[::stride] for r in rows])
                if err:
                    ctx.violation('saveload:oldstyle:stride', case, 'old-style file, stride %d: %s' % (stride, err))
            # default keys on an old-style file: the library warns that the layout looks old-style; it must not fail internally
            import warnings
            ctx.ev()
            with warnings.catch_warnings(record=True) as w:
                warnings.simplefilter('always')
                try:
                    ra.load(fn)
                except Exception as e:
                    if type(e).__name__ == 'DataInvalid':
                        pass        # a descriptive rejection (array and lengths nodes of different type) is a legitimate answer
                    else:
                        ctx.violation('saveload:oldstyle:default_keys:raises:%s' % type(e).__name__, case,
                                      'ra.load(old-style file) with default keys raised %r instead of warning' % (e,))
                        return
            if not any(issubclass(x.category, DeprecationWarning) for x in w):
                ctx.violation('saveload:oldstyle:default_keys:no_warning', case, 'no DeprecationWarning for an old-style file read with default keys')
            return
        a = ra.RaggedArray([r for r in rows])
        ra.save(fn, a, compression_level=comp)
        if keys is None:
            back = ra.load(fn, stride=stride)
            want = [r[::stride] for r in rows]
        else:
            nz = len(str(len(lengths))) + 1
            names = ['arr_' + str(k).zfill(nz) for k in keys]
            back = ra.load(fn, keys=names, stride=stride)
            want = [rows[k][::stride] for k in keys]
            ctx.guard('keys_subset')
        got = as_rows(back, single_row_quirk=(len(want) == 1))
        err = rows_equal(got, want)
        if err:
            sub = 'keys' if keys is not None else ('stride' if stride > 1 else 'plain')
            ctx.violation('saveload:%s' % sub, case, '%s (%r)' % (err, case))
        elif len(want) > 1 and not isinstance(back, ra.RaggedArray):
            ctx.violation('saveload:container', case, 'loaded %s instead of RaggedArray' % type(back).__name__)
        elif len(want) > 1:
            wl = [len(w) for w in want]
            if list(back.lengths) != wl:
                ctx.violation('saveload:lengths', case, 'lengths %r != %r' % (list(back.lengths), wl))
        if keys is None and rank == 1:
            # the bulk HDF5 loader on a one-rank world: the same rows, concatenated, together with their lengths
            from enspara.mpi import io as mio
            ctx.ev()
            ctx.guard('bulk_h5')
            lens, data = mio.load_h5_as_striped(fn, stride=stride)
            wl = [len(w) for w in want]
            flat = np.concatenate(want)
            if [int(x) for x in lens] != wl:
                ctx.violation('bulk_h5:lengths', case, 'load_h5_as_striped lengths %r != %r (%d elements loaded)' % (list(lens), wl, len(data)))
            elif np.asarray(data).dtype != flat.dtype or np.asarray(data).tobytes() != flat.tobytes():
                ctx.violation('bulk_h5:data', case, 'load_h5_as_striped data %r != %r' % (np.asarray(data).tolist()[:12], flat.tolist()[:12]))
    except Exception as e:
        ctx.violation('saveload:raises:%s:%s' % (kind, type(e).__name__), case, 'raised %r on %r' % (e, case))
    finally:
        shutil.rmtree(tmp, ignore_errors=True)


def saveload_cases(tier):
    out = []
    counts = list(range(1, 13)) + [99, 100, 101]
    if tier == 'thorough':
        counts = list(range(1, 121)) + [999, 1000, 1001]
    k = 0
    for n in counts:
        lengths = [(i * 3 + n) % 7 + 1 for i in range(n)]
        for dtype in DTYPES if n <= 12 else ('int32',):
            k += 1
            out.append({'lengths': lengths, 'dtype': dtype, 'rank': 1 + k % 3 if n <= 12 else 1,
                        'stride': 1 + k % 3, 'comp': (0, 1, 9)[k % 3], 'keys': None, 'input': 'ragged'})
        eq = [3] * n
        out.append({'lengths': eq, 'dtype': 'float32', 'rank': 1, 'stride': 1, 'comp': 1, 'keys': None, 'input': 'ragged'})
        if n <= 12:
            out.append({'lengths': eq, 'dtype': 'int64', 'rank': 2, 'stride': 2, 'comp': 1, 'keys': None, 'input': 'ndarray'})
    # every (length, stride) residue
    for L in range(1, 8):
        for s in range(1, 9):
            out.append({'lengths': [L, (L % 7) + 1, L], 'dtype': 'int32', 'rank': 1, 'stride': s, 'comp': 1, 'keys': None, 'input': 'ragged'})
            out.append({'lengths': [L, 7, 2], 'dtype': 'float64', 'rank': 2, 'stride': s, 'comp': 0, 'keys': None, 'input': 'ragged'})
    # every ordered subset of <=3 of 5 rows
    for r in (1, 2, 3):
        for keys in itertools.permutations(range(5), r):
            out.append({'lengths': [2, 5, 1, 3, 4], 'dtype': 'int32', 'rank': 1, 'stride': 1 + (sum(keys) % 2), 'comp': 1,
                        'keys': list(keys), 'input': 'ragged'})
    for dtype in DTYPES:
        out.append({'lengths': [2, 3, 1], 'dtype': dtype, 'rank': 1, 'stride': 1, 'comp': 1, 'keys': None, 'input': 'oldstyle'})
        for st in (2, 3):
            out.append({'lengths': [5, 4, 3, 1], 'dtype': dtype, 'rank': 1, 'stride': st, 'comp': 1, 'keys': None, 'input': 'oldstyle'})
        out.append({'lengths': [4, 4], 'dtype': dtype, 'rank': 1, 'stride': 1, 'comp': 9, 'keys': None, 'input': 'ndarray'})
    return out


# ------------------------------------------------------------------ load_as_concatenated

def write_files(tmp, lengths, fmt, n_atoms=3):
    import mdtraj as md
    top = md.Topology()
    ch = top.add_chain()
    res = top.add_residue('ALA', ch)
    for a in range(n_atoms):
        top.add_atom('CA', md.element.carbon, res)
    files = []
    v = 0
    for i, L in enumerate(lengths):
        xyz = ((np.arange(v, v + L * n_atoms * 3) * 13 % 97) / 10.0).astype(np.float32).reshape(L, n_atoms, 3)
        v += L * n_atoms * 3
        t = md.Trajectory(xyz, top)
        fn = os.path.join(tmp, 'trj%d.%s' % (i, fmt))
        t.save(fn)
        files.append(fn)
    topfn = os.path.join(tmp, 'top.pdb')
    md.Trajectory(np.zeros((1, n_atoms, 3), dtype=np.float32), top).save_pdb(topfn)
    return files, topfn


def bulk_configs(tier):
    out = []
    lens = [l for k in (2, 3) for l in itertools.product((1, 2, 3), repeat=k)] + [(2, 1, 3, 1), (1, 4, 1, 2)]
    k = 0
    for lengths in lens:
        for fmt in ('xtc', 'h5'):
            k += 1
            for stride in (1, 2, 3):
                for sel in (None, [0], [0, 2]):
                    for hint in (True, False):
                        k += 1
                        if tier == 'quick' and (k % 3):
                            continue
                        out.append({'lengths': list(lengths), 'fmt': fmt, 'stride': stride, 'sel': sel, 'hint': hint,
                                    'processes': 1 + k % 4})
    return out


def check_bulk(case, ctx, real_pool=False):
    import mdtraj as md
    from enspara.util import load
    from .. import simpool
    lengths, fmt, stride, sel, hint, procs = (case['lengths'], case['fmt'], case['stride'], case['sel'], case['hint'],
                                              case['processes'])
    tmp = tempfile.mkdtemp(prefix='vfc15b-')
    try:
        files, topfn = write_files(tmp, lengths, fmt)
        kw = {}
        if fmt == 'xtc':
            kw['top'] = topfn
        if stride != 1:
            kw['stride'] = stride
        if sel is not None:
            kw['atom_indices'] = np.array(sel)
            ctx.guard('atom_selection')
        indiv = [md.load(f, **kw).xyz for f in files]
        want = np.concatenate(indiv)
        want_len = [len(x) for x in indiv]
        if not hint:
            ctx.guard('no_hint')

        def call():
            if case.get('argstyle') == 'args':
                return load.load_as_concatenated(files, lengths=(list(want_len) if hint else None), processes=procs,
                                                 args=[dict(kw) for _ in files])
            return load.load_as_concatenated(files, lengths=(list(want_len) if hint else None), processes=procs, **kw)

        def judge(res, where):
            L, xyz = res
            if [int(x) for x in L] != want_len:
                ctx.violation('bulk:lengths', dict(case, schedule=where), 'lengths %r != %r (%r)' % (list(L), want_len, case))
                return False
            if xyz.dtype != want.dtype or xyz.shape != want.shape or xyz.tobytes() != want.tobytes():
                ctx.violation('bulk:coordinates', dict(case, schedule=where),
                              'result differs from the concatenation of individual loads under completion order %r (%r)' % (where, case))
                return False
            return True

        if real_pool:
            import multiprocessing
            # our own workers are daemonic; allow this one to spawn the library's real Pool
            multiprocessing.current_process()._config['daemon'] = False
            ctx.ev()
            ctx.state(('real', tuple(lengths), fmt, stride, str(sel), hint, procs))
            ctx.guard('real_pool')
            judge(call(), 'real pool')
            return
        outcomes = set()

        def run(prefix):
            with simpool.installed() as S:
                S.reset(prefix)
                try:
                    res = call()
                    ok = ('ok', tuple(int(x) for x in res[0]), res[1].tobytes())
                except Exception as e:
                    res = None
                    ok = ('raised', type(e).__name__, str(e)[:200])
                pts = list(S.points)
            return pts, (ok, res)

        def on_exec(choices, pts, outcome):
            ok, res = outcome
            ctx.ev()
            ctx.extra['schedules'] += 1
            nd = any(c for c in choices)
            ctx.state(('bulk', tuple(lengths), fmt, stride, str(sel), hint, procs, choices), nontrivial=nd)
            if nd:
                ctx.guard('nondefault_order')
            outcomes.add(ok if ok[0] == 'raised' else ok[1:])
            if ok[0] == 'raised':
                ctx.violation('bulk:raises:%s' % ok[1], dict(case, schedule=list(choices)), 'raised %s under order %r (%r)' % (ok[1:], choices, case))
            else:
                judge(res, list(choices))

        bound = 99 if len(lengths) <= 3 else 2
        explore.dfs_choices(run, bound, on_exec)
        # keep one returned array alive: later loads (other files, same total shape) must not change it
        held = getattr(ctx, '_held', None)
        if held is not None:
            with simpool.installed() as S:
                S.reset([])
                try:
                    Lh, xh = call()
                    held.append((xh, want.tobytes(), dict(case)))
                except Exception:
                    pass
        if len(outcomes) > 1:
            ctx.violation('bulk:order_dependent', case, '%d distinct outcomes over completion orders (%r)' % (len(outcomes), case))
        if case.get('frame'):
            # frame= kwarg: each file contributes exactly one frame
            ctx.ev()
            with simpool.installed() as S:
                S.reset([])
                kw2 = dict(kw)
                kw2.pop('stride', None)
                L, xyz = load.load_as_concatenated(files, processes=procs, frame=0, **kw2)
            ref = np.concatenate([md.load(f, frame=0, **kw2).xyz for f in files])
            ctx.guard('frame_kwarg')
            if list(L) != [1] * len(files) or xyz.tobytes() != ref.tobytes():
                ctx.violation('bulk:frame_kwarg', case, 'frame=0 load differs: lengths %r' % (list(L),))
    except Exception as e:
        ctx.violation('bulk:harness_or_impl_raises:%s' % type(e).__name__, case, 'raised %r on %r' % (e, case))
    finally:
        shutil.rmtree(tmp, ignore_errors=True)


def run_shard(sh, ctx):
    kind, tier, i = sh
    if kind == 'saveload':
        cases = saveload_cases(tier)
        for j in range(i, len(cases), 16):
            check_saveload(dict(cases[j], kind='saveload'), ctx)
        ctx.sample(cases[i])
    elif kind == 'bulk':
        cfgs = bulk_configs(tier)
        ctx._held = []
        for j in range(i, len(cfgs), 12):
            c = dict(cfgs[j], kind='bulk')
            if j % 5 == 0:
                c['argstyle'] = 'args'
            if j % 9 == 0:
                c['frame'] = True
            check_bulk(c, ctx)
        # results returned earlier in this history must still hold what they held when they were returned
        for xh, wantb, c0 in ctx._held:
            ctx.ev()
            ctx.guard('held_results')
            if xh.tobytes() != wantb:
                ctx.violation('bulk:earlier_result_changed_by_later_load', c0,
                              'an array returned by an earlier load_as_concatenated call no longer equals the concatenation of its files after later loads (%r)' % (c0,))
                break
        ctx._held = None
        ctx.sample(c)
    else:
        cfgs = bulk_configs(tier)
        for j in range(0, len(cfgs), max(1, len(cfgs) // 12)):
            check_bulk(dict(cfgs[j], kind='bulk_real'), ctx, real_pool=True)
        ctx.sample(dict(cfgs[0], kind='bulk_real'))


def replay(case, ctx):
    if case['kind'] == 'saveload':
        check_saveload(case, ctx)
    elif case['kind'] == 'bulk':
        check_bulk(case, ctx)
    else:
        check_bulk(case, ctx, real_pool=True)
