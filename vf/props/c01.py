"""C01 - clustering results are self-consistent for every algorithm and input.

E1: every ordered set of distinct lattice points (scope per tier) x metric x dtype x
entry point x (k | radius) x cold/warm start x seed alphabet x sweep count.
Oracle: vf.models.clusterref.check_result (pure NumPy distances).
"""
import itertools

import numpy as np

from ..models import clusterref as cr

ID = 'C01'
RULE = ('data sets: all ordered tuples of distinct lattice points (Q: 1-D {0..5} n<=4, 2-D 3x2 grid n<=3 + one 4-point 2-D set in all orders, '
        '1-D n=5 rotations; T: 1-D {0..6} n<=5, 2-D 3x3 n<=4) x metrics {euclidean, manhattan, callable '
        'chebyshev, callable squared-euclidean} x dtypes {f8,f4,i8,i4} x entry points {kcenters, KCenters, '
        'kcenters+init_centers, kmedoids cold/warm(inds|state|traj-frame pairs; state distances also as float32/int64), KMedoids, '
        'hybrid, KHybrid, the same estimator object fitted on two data sets in a row, init_centers given as a python list of rows '
        '(kcenters / KCenters.fit / hybrid) and as the centers list of an earlier result (which must stay self-consistent), '
        'kcenters with use_triangle_inequality=True for every k and radius} x wide-range 1-D sets over '
        '{0,-600000,-300002,-300001,-299999,300000,7} (n<=4; frames a few units beyond the half-way bound) x '
        'every k in 1..n+2 (more clusters than frames included), every radius from the data, sweeps 0..3, seeds {s,s+1,s+2}; state = (data, metric, dtype, '
        'entry, params); non-trivial = result with >=2 centers and >=1 non-center frame')
ASSUMPTIONS = ['use_triangle_inequality=True is only exercised with metrics that obey the triangle inequality (not squared euclidean)',
               'small-scope: <=5 frames on integer lattices (distances exact in float64)',
               'oracle distances computed by NumPy in float64; equality tolerance 1e-9',
               'seed alphabet {s,s+1,s+2}: clauses must hold for every seed, none is compared to a stored value']
GUARDS = {'init_list': 200, 'continuation': 100, 'triangle_shortcut': 500, 'wide_range': 200, 'refit': 200, 'more_clusters_than_frames': 200, 'pam_accept': 200, 'pam_reject': 200, 'radius_stop': 200, 'warm_pairs': 200, 'init_centers': 200,
          'callable_metric': 200, 'int_dtype': 200}

METRICS = ('euclidean', 'manhattan', 'chebyshev', 'sqeuclid')
DTYPES = ('float64', 'float32', 'int64', 'int32')


def datasets(tier):
    out = []
    if tier == 'quick':
        out += [t for t in cr.lattice_sets(range(6), 4)]
        out += [t for t in cr.lattice_sets(cr.grid((3, 2)), 3)]
        out += [t for t in cr.lattice_sets([(0, 0), (2, 0), (0, 1), (1, 2)], 4, 4)]
        for sub in list(itertools.combinations(range(7), 5))[::3]:
            for first in sub:
                out.append((first,) + tuple(x for x in sub if x != first))
    else:
        out += [t for t in cr.lattice_sets(range(7), 5)]
        out += [t for t in cr.lattice_sets(cr.grid((3, 3)), 4)]
    out += [t for t in cr.lattice_sets(WIDE, 4 if tier == 'quick' else 5, 3)][::(3 if tier == 'quick' else 1)]
    return out


WIDE = (0, -600000, -300002, -300001, -299999, 300000, 7)
NSH = {'quick': 64, 'thorough': 512}


def shards(tier, seed):
    return [(tier, i) for i in range(NSH[tier])]


def compositions(n):
    for bits in itertools.product((0, 1), repeat=n - 1):
        out, cur = [], 1
        for b in bits:
            if b:
                out.append(cur)
                cur = 1
            else:
                cur += 1
        out.append(cur)
        yield out


def flat_to_pair(idx, lengths):
    t = 0
    for L in lengths:
        if idx < L:
            return (t, idx)
        idx -= L
        t += 1
    raise IndexError


def entries(n, D, full, seed):
    """Enumerate (entry, params) for a data set of n frames. `full`=all variants."""
    radii = sorted(set(np.round(D[np.triu_indices(n, 1)], 12))) if n > 1 else []
    for k in range(1, n + 3):       # k = n+1, n+2: more clusters requested than frames exist
        yield ('kcenters_k', {'k': k})
        yield ('KCenters_k', {'k': k})
    for r in radii:
        yield ('kcenters_r', {'r': float(r)})
        yield ('KCenters_r', {'r': float(r)})
        yield ('kcenters_r', {'r': float(r) * 0.75})
    for m in range(1, min(3, n) + 1):
        for sub in itertools.combinations(range(n), m):
            for extra in (0, 1):
                if m + extra <= n:
                    yield ('kcenters_init', {'init': list(sub), 'k': m + extra})
            if m >= 2:
                yield ('kcenters_init', {'init': list(sub)[::-1], 'k': min(n, m + 1)})
    if not full:
        return
    for k in range(1, n + 1):
        yield ('kcenters_k_tri', {'k': k})
    for r in radii:
        yield ('kcenters_r_tri', {'r': float(r)})
        yield ('kcenters_r_tri', {'r': float(r) * 0.75})
    for m in range(1, min(3, n) + 1):
        for sub in list(itertools.combinations(range(n), m))[:5]:
            k = min(n, m + 1)
            yield ('kcenters_initlist', {'init': list(sub), 'k': k})
            yield ('KCenters_initlist', {'init': list(sub), 'k': k})
            yield ('hybrid_initlist', {'init': list(sub), 'k': k, 'iters': 1, 'seed': seed})
        yield ('kcenters_continue', {'k0': m, 'k': min(n, m + 1)})
        yield ('KCenters_continue', {'k0': m, 'k': min(n, m + 1)})
    seeds = (seed, seed + 1, seed + 2)
    for k in range(1, n + 1):
        for s in seeds:
            for it in (1, 2):
                yield ('kmedoids_cold', {'k': k, 'seed': s, 'iters': it})
        for it in (0, 1, 2, 3):
            for s in seeds if it else seeds[:1]:
                yield ('hybrid_k', {'k': k, 'seed': s, 'iters': it})
        yield ('KHybrid_k', {'k': k, 'seed': seeds[0], 'iters': 2})
    # the same estimator object fitted twice (attributes must describe the LAST fit)
    for k in range(1, n + 1):
        for est in ('KCenters', 'KHybrid', 'KMedoids'):
            yield ('refit_' + est, {'k': k, 'seed': seeds[0], 'iters': 1})
    # warm-start state supplied with distances in another float/int dtype (exactly representable values)
    for k in range(1, n + 1):
        for sub in list(itertools.combinations(range(n), k))[:4]:
            for ddt in ('float32', 'int64'):
                yield ('kmedoids_warm_state_dtype', {'inds': list(sub), 'seed': seeds[0], 'iters': 2, 'ddtype': ddt})
    for k in (n + 1, n + 2):
        yield ('hybrid_k', {'k': k, 'seed': seeds[0], 'iters': 0})
        yield ('KHybrid_k', {'k': k, 'seed': seeds[0], 'iters': 0})
    for r in radii[:3]:
        yield ('hybrid_r', {'r': float(r), 'seed': seeds[0], 'iters': 2})
        yield ('KHybrid_r', {'r': float(r), 'seed': seeds[1], 'iters': 1})
    for k in range(1, n + 1):
        for sub in itertools.combinations(range(n), k):
            for it in (1, 2):
                yield ('kmedoids_warm_inds', {'inds': list(sub), 'seed': seeds[it - 1], 'iters': it})
            yield ('kmedoids_warm_state', {'inds': list(sub), 'seed': seeds[0], 'iters': 2})
            yield ('kmedoids_warm_all', {'inds': list(sub), 'seed': seeds[1], 'iters': 1})
            yield ('KMedoids_warm', {'inds': list(sub), 'seed': seeds[2], 'iters': 2})
            if 2 <= k <= 3:
                for comp in compositions(n):
                    yield ('kmedoids_warm_pairs', {'inds': list(sub), 'lengths': comp,
                                                   'seed': seeds[0], 'iters': 1})


def snapshot(x):
    if isinstance(x, np.ndarray):
        return ('nd', x.dtype.str, x.shape, x.tobytes())
    if isinstance(x, (list, tuple)):
        return ('seq', type(x).__name__, tuple(snapshot(v) for v in x))
    return ('val', repr(x))


def run_entry(X, metric, entry, p):
    """Returns (result, inputs dict name->object) ; inputs are checked for mutation."""
    from enspara.cluster import kcenters as kc, kmedoids as km, hybrid as hy
    from enspara.cluster import KCenters, KMedoids, KHybrid
    m = cr.impl_metric(metric)
    inputs = {'X': X}
    if entry == 'kcenters_k':
        return kc.kcenters(X, m, n_clusters=p['k']), inputs
    if entry == 'kcenters_r':
        return kc.kcenters(X, m, dist_cutoff=p['r']), inputs
    if entry == 'KCenters_k':
        return KCenters(m, n_clusters=p['k']).fit(X).result_, inputs
    if entry == 'KCenters_r':
        return KCenters(m, cluster_radius=p['r']).fit(X).result_, inputs
    if entry == 'kcenters_init':
        init = X[p['init']].copy()
        inputs['init_centers'] = init
        return kc.kcenters(X, m, n_clusters=p['k'], init_centers=init), inputs
    if entry == 'kcenters_k_tri':
        return kc.kcenters(X, m, n_clusters=p['k'], use_triangle_inequality=True), inputs
    if entry == 'kcenters_r_tri':
        return kc.kcenters(X, m, dist_cutoff=p['r'], use_triangle_inequality=True), inputs
    if entry.endswith('_initlist'):
        init = [X[i].copy() for i in p['init']]          # a python LIST of rows (what result.centers / est.centers_ are)
        inputs['init_centers'] = init
        if entry == 'kcenters_initlist':
            return kc.kcenters(X, m, n_clusters=p['k'], init_centers=init), inputs
        if entry == 'KCenters_initlist':
            return KCenters(m, n_clusters=p['k']).fit(X, init_centers=init).result_, inputs
        return hy.hybrid(X, m, n_iters=p['iters'], n_clusters=p['k'], init_centers=init, random_state=p['seed']), inputs
    if entry.endswith('_continue'):
        # continue an earlier result from its own centers list; the EARLIER result must stay what it was
        if entry == 'kcenters_continue':
            r0 = kc.kcenters(X, m, n_clusters=p['k0'])
            c0 = r0.centers
        else:
            e0 = KCenters(m, n_clusters=p['k0']).fit(X)
            r0, c0 = e0.result_, e0.centers_
        inputs['earlier'] = (r0, snapshot(list(c0)), snapshot(np.asarray(r0.center_indices)), snapshot(r0.assignments), snapshot(r0.distances))
        inputs['earlier_centers'] = c0
        if entry == 'kcenters_continue':
            return kc.kcenters(X, m, n_clusters=p['k'], init_centers=c0), inputs
        return KCenters(m, n_clusters=p['k']).fit(X, init_centers=c0).result_, inputs
    if entry == 'kmedoids_cold':
        return km.kmedoids(X, m, n_clusters=p['k'], n_iters=p['iters'], random_state=p['seed']), inputs
    if entry == 'hybrid_k':
        return hy.hybrid(X, m, n_iters=p['iters'], n_clusters=p['k'], random_state=p['seed']), inputs
    if entry == 'hybrid_r':
        return hy.hybrid(X, m, n_iters=p['iters'], dist_cutoff=p['r'], random_state=p['seed']), inputs
    if entry == 'KHybrid_k':
        e = KHybrid(m, n_clusters=p['k'], kmedoids_updates=p['iters'], random_state=p['seed'])
        r = e.fit(X).result_
        assert r is e.result_
        return type(r)(center_indices=e.center_indices_, distances=e.distances_,
                       assignments=e.labels_, centers=e.centers_), inputs
    if entry == 'KHybrid_r':
        e = KHybrid(m, cluster_radius=p['r'], kmedoids_updates=p['iters'], random_state=p['seed'])
        return e.fit(X).result_, inputs
    if entry.startswith('refit_'):
        est = entry.split('_', 1)[1]
        X1 = (X[::-1] * 2 + 1).astype(X.dtype)              # a different data set of the same shape
        k = p['k']
        if est == 'KCenters':
            e = KCenters(m, n_clusters=k)
        elif est == 'KHybrid':
            e = KHybrid(m, n_clusters=k, kmedoids_updates=p['iters'], random_state=p['seed'])
        else:
            e = KMedoids(m, n_clusters=k, n_iters=p['iters'])
            np.random.seed(p['seed'] % (2 ** 32))
        if est == 'KMedoids':
            e.fit(X1, cluster_center_inds=list(range(k)))
        else:
            e.fit(X1)
        _ = (e.centers_, e.labels_, e.distances_, e.center_indices_)      # read everything between the fits
        e.predict(X1)
        if est == 'KMedoids':
            e.fit(X, cluster_center_inds=list(range(k)))
        else:
            e.fit(X)
        r = e.result_
        return type(r)(center_indices=e.center_indices_, distances=e.distances_, assignments=e.labels_,
                       centers=e.centers_), inputs
    if entry == 'kmedoids_warm_state_dtype':
        D = cr.dist_matrix(X, metric)
        lab, dist = cr.nearest_state(D, p['inds'])
        d_in = dist.astype(p['ddtype'])
        if not np.array_equal(d_in.astype(float), dist):
            return None, inputs          # only when the supplied state is exactly representable in that dtype
        return km.kmedoids(X, m, n_iters=p['iters'], assignments=lab, distances=d_in, random_state=p['seed']), inputs
    if entry.startswith('kmedoids_warm') or entry == 'KMedoids_warm':
        D = cr.dist_matrix(X, metric)
        lab, dist = cr.nearest_state(D, p['inds'])
        inds = list(p['inds'])
        if entry == 'kmedoids_warm_inds':
            inputs['cluster_center_inds'] = inds
            return km.kmedoids(X, m, n_iters=p['iters'], cluster_center_inds=inds,
                               random_state=p['seed']), inputs
        if entry == 'kmedoids_warm_state':
            inputs['assignments'] = lab
            inputs['distances'] = dist
            return km.kmedoids(X, m, n_iters=p['iters'], assignments=lab, distances=dist,
                               random_state=p['seed']), inputs
        if entry == 'kmedoids_warm_all':
            inputs.update(assignments=lab, distances=dist, cluster_center_inds=inds)
            return km.kmedoids(X, m, n_iters=p['iters'], assignments=lab, distances=dist,
                               cluster_center_inds=inds, random_state=p['seed']), inputs
        if entry == 'kmedoids_warm_pairs':
            pairs = [flat_to_pair(i, p['lengths']) for i in inds]
            lengths = list(p['lengths'])
            inputs.update(cluster_center_inds=pairs, X_lengths=lengths)
            return km.kmedoids(X, m, n_iters=p['iters'], cluster_center_inds=pairs,
                               X_lengths=lengths, random_state=p['seed']), inputs
        if entry == 'KMedoids_warm':
            np.random.seed(p['seed'] % (2 ** 32))   # estimator draws from the global RandomState
            inputs['cluster_center_inds'] = inds
            e = KMedoids(m, n_iters=p['iters'])
            r = e.fit(X, cluster_center_inds=inds).result_
            return r, inputs
    raise ValueError(entry)


def check_case(case, ctx):
    pts, dtype, metric, entry, p = case['pts'], case['dtype'], case['metric'], case['entry'], case['p']
    X = cr.as_array([tuple(q) if isinstance(q, (list, tuple)) else q for q in pts], dtype)
    n = len(X)
    D = cr.dist_matrix(X, metric)
    ctx.ev()
    key = (tuple(map(tuple, X.tolist())), dtype, metric, entry, tuple(sorted((k, repr(v)) for k, v in p.items())))
    tag = entry.split('_')[0]
    try:
        X0 = X.copy()
        res, inputs = run_entry(X, metric, entry, p)
    except Exception as e:
        ctx.state(key)
        ctx.violation('%s:raises:%s' % (entry, type(e).__name__), case,
                      '%s raised %r on %r' % (entry, e, case))
        return
    if res is None:
        return
    if entry.startswith('refit_'):
        ctx.guard('refit')
    before = None
    want_k = p.get('k') if entry in ('kcenters_k', 'KCenters_k', 'kcenters_init', 'kmedoids_cold', 'kcenters_k_tri',
                                     'hybrid_k', 'KHybrid_k') or entry.endswith('_initlist') or entry.endswith('_continue') or entry.startswith('refit_') else (len(p['inds']) if 'inds' in p else None)
    if want_k is not None and want_k > n:
        want_k = n          # distinct frames: the radius reaches 0 with n centers
        ctx.guard('more_clusters_than_frames')
    bad = cr.check_result(X0, D, res, want_k)
    k = len(res.center_indices)
    ctx.state(key, nontrivial=(k >= 2 and n > k))
    for clause, msg in bad:
        ctx.violation('%s:%s' % (tag, clause), case, '%s on %r: %s' % (clause, case, msg))
    # inputs intact (the snapshot of each input is rebuilt from the case description)
    if not np.array_equal(X, X0) or X.dtype != X0.dtype:
        ctx.violation('%s:mutates:X' % tag, case, 'data modified: %r -> %r' % (X0.tolist(), X.tolist()))
    exp = {}
    if 'init_centers' in inputs:
        exp['init_centers'] = [X0[i] for i in p['init']] if entry.endswith('_initlist') else X0[p['init']]
    if entry.endswith('_initlist'):
        ctx.guard('init_list')
    if entry.endswith('_tri'):
        ctx.guard('triangle_shortcut')
    if np.abs(X0).max() > 1000:
        ctx.guard('wide_range')
    if 'earlier' in inputs:
        ctx.guard('continuation')
        r0, s_c, s_i, s_a, s_d = inputs['earlier']
        now = (snapshot(list(inputs['earlier_centers'])), snapshot(np.asarray(r0.center_indices)), snapshot(r0.assignments), snapshot(r0.distances))
        if now != (s_c, s_i, s_a, s_d) or len(r0.centers) != len(r0.center_indices):
            what = 'centers' if now[0] != s_c or len(r0.centers) != len(r0.center_indices) else 'fields'
            ctx.violation('%s:mutates:earlier_result:%s' % (entry, what), case,
                          'continuing from an earlier result changed that result: now %d centers for %d center indices' % (
                              len(r0.centers), len(r0.center_indices)))
    if 'assignments' in inputs or 'distances' in inputs:
        lab, dist = cr.nearest_state(D, p['inds'])
        exp['assignments'], exp['distances'] = lab, dist
    if 'cluster_center_inds' in inputs:
        exp['cluster_center_inds'] = ([flat_to_pair(i, p['lengths']) for i in p['inds']]
                                      if entry == 'kmedoids_warm_pairs' else list(p['inds']))
    if 'X_lengths' in inputs:
        exp['X_lengths'] = list(p['lengths'])
    for name, want in exp.items():
        if snapshot(inputs[name]) != snapshot(want):
            ctx.violation('%s:mutates:%s' % (entry, name), case,
                          'caller\'s %s modified by %s: %r -> %r' % (name, entry, want, inputs[name]))
    # guards
    if entry.startswith('kcenters_r') or entry.endswith('_r'):
        ctx.guard('radius_stop')
    if entry == 'kmedoids_warm_pairs':
        ctx.guard('warm_pairs')
    if entry == 'kcenters_init':
        ctx.guard('init_centers')
    if metric in ('chebyshev', 'sqeuclid'):
        ctx.guard('callable_metric')
    if dtype.startswith('int'):
        ctx.guard('int_dtype')
    if 'inds' in p and not bad:
        if sorted(int(c) for c in res.center_indices) != sorted(p['inds']):
            ctx.guard('pam_accept')
        else:
            ctx.guard('pam_reject')


def combos(full_entries):
    for metric in METRICS:
        for dtype in DTYPES:
            full = (dtype == 'float64') or (metric == 'euclidean' and dtype == 'int32')
            yield metric, dtype, full


def run_shard(sh, ctx):
    tier, i = sh
    ds = datasets(tier)
    for j in range(i, len(ds), NSH[tier]):
        pts = ds[j]
        wide = max(abs(v) for q in pts for v in (q if isinstance(q, (tuple, list)) else (q,))) > 1000
        for metric, dtype, full in combos(True):
            if wide and (metric not in ('euclidean', 'manhattan') or dtype not in ('float64', 'int64')):
                continue
            full = full or wide
            X = cr.as_array(pts, dtype)
            D = cr.dist_matrix(X, metric)
            for entry, p in entries(len(X), D, full, ctx.seed):
                if entry.endswith('_tri') and metric == 'sqeuclid':
                    continue        # the shortcut presupposes a metric obeying the triangle inequality
                case = {'pts': pts, 'dtype': dtype, 'metric': metric, 'entry': entry, 'p': p}
                check_case(case, ctx)
        if j % 97 == 0:
            ctx.sample(case)


def replay(case, ctx):
    check_case(case, ctx)
