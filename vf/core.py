"""Runner: shards a property's bounded behaviour space over worker processes,
merges what they covered, triages violations against known_findings.json,
writes evidence and replay files.

A property module (vf/props/cNN.py) provides

    ID          'C05'
    VARIANT     'omp' | 'sched'            (extension build used)    [default 'omp']
    MPI         'serial' | 'sim'           (mpi4py stub used)        [default 'serial']
    RULE        text: how cases are enumerated / what is non-trivial
    ASSUMPTIONS list of text
    def shards(tier, seed)   -> list of picklable shard descriptors (partition of the scope)
    def run_shard(shard, ctx) -> None      (records into ctx)
    def replay(case, ctx)     -> None      (re-executes one case, records into ctx)
    GUARDS      {guard name: minimal count}  vacuity guards (per tier dict allowed)
"""
import hashlib
import importlib
import json
import multiprocessing as mp
import os
import pickle
import sys
import time
import traceback
from collections import Counter

import numpy as np

from . import build

VERIF = build.VERIF
EVIDENCE_DIR = os.environ.get('VERIF_EVIDENCE_DIR') or os.path.join(VERIF, 'evidence')
REPLAY_DIR = os.path.join(VERIF, 'replays')
KNOWN = os.path.join(VERIF, 'known_findings.json')


def h64(obj):
    """Stable 64-bit hash of a canonical (picklable / bytes / str) key."""
    if isinstance(obj, bytes):
        b = obj
    elif isinstance(obj, str):
        b = obj.encode()
    else:
        b = repr(obj).encode()
    return int.from_bytes(hashlib.blake2b(b, digest_size=8).digest(), 'little')


def jsonable(x):
    if isinstance(x, dict):
        return {str(k): jsonable(v) for k, v in x.items()}
    if isinstance(x, (list, tuple, set, frozenset)):
        return [jsonable(v) for v in x]
    if isinstance(x, np.ndarray):
        return {'__nd__': x.tolist(), 'dtype': str(x.dtype)}
    if isinstance(x, (np.integer,)):
        return int(x)
    if isinstance(x, (np.floating,)):
        return float(x)
    if isinstance(x, (np.bool_,)):
        return bool(x)
    if isinstance(x, float) and (x != x or x in (float('inf'), float('-inf'))):
        return repr(x)
    if isinstance(x, (int, float, str, bool)) or x is None:
        return x
    if isinstance(x, slice):
        return {'__slice__': [x.start, x.stop, x.step]}
    return repr(x)


class CaseTimeout(Exception):
    """the implementation did not return within the per-case horizon (spin / livelock)"""


import contextlib
import signal


@contextlib.contextmanager
def time_limit(seconds):
    """Explicit horizon for one execution: code that never goes quiescent (a loop whose exit condition a change has
    broken) must become an observation, not a hung check.  Only usable in the worker's main thread."""
    def handler(signum, frame):
        raise CaseTimeout('no result after %ss' % seconds)
    old = signal.signal(signal.SIGALRM, handler)
    signal.setitimer(signal.ITIMER_REAL, seconds)
    try:
        yield
    finally:
        signal.setitimer(signal.ITIMER_REAL, 0)
        signal.signal(signal.SIGALRM, old)


class Ctx:
    """Per-shard accumulator handed to property modules."""

    MAX_SAMPLES = 3
    MAX_VIOL_PER_SIG = 1

    def __init__(self, tier, seed):
        self.tier = tier
        self.seed = seed
        self.evaluations = 0       # implementation executions compared with the oracle
        self.transitions = 0       # implementation operations applied
        self._states = set()       # 64-bit hashes of canonical states / inputs
        self._nontrivial = set()
        self.guards = Counter()
        self.viol = {}             # sig -> dict(case, msg, order)
        self.viol_counts = Counter()
        self.samples = []
        self.extra = Counter()     # additive extras (schedules, outcomes, ...)
        self.maxima = {}           # max-merged extras (max_residual, max_depth...)
        self._order = 0

    # -- coverage bookkeeping
    def state(self, key, nontrivial=False):
        h = key if isinstance(key, int) else h64(key)
        self._states.add(h)
        if nontrivial:
            self._nontrivial.add(h)
        return h

    def nontrivial(self, key):
        self._nontrivial.add(key if isinstance(key, int) else h64(key))

    def ev(self, n=1, transitions=None):
        self.evaluations += n
        self.transitions += n if transitions is None else transitions

    def guard(self, name, n=1):
        self.guards[name] += n

    def sample(self, case):
        if len(self.samples) < self.MAX_SAMPLES:
            self.samples.append(jsonable(case))

    def maxi(self, name, value):
        try:
            v = float(value)
        except Exception:
            return
        if v != v:
            return
        if name not in self.maxima or v > self.maxima[name]:
            self.maxima[name] = v

    # -- violations
    def violation(self, sig, case, msg):
        """sig: short stable string naming the failing class (call site + input
        class + failure mode); case: JSON-able description replay() understands."""
        self.viol_counts[sig] += 1
        self._order += 1
        if sig not in self.viol:
            self.viol[sig] = {'case': jsonable(case), 'msg': str(msg)[:2000],
                              'order': self._order}

    def result(self):
        return {
            'evaluations': self.evaluations, 'transitions': self.transitions,
            'states': np.fromiter(self._states, dtype=np.uint64, count=len(self._states)),
            'nontrivial': np.fromiter(self._nontrivial, dtype=np.uint64,
                                      count=len(self._nontrivial)),
            'guards': dict(self.guards), 'viol': self.viol,
            'viol_counts': dict(self.viol_counts), 'samples': self.samples,
            'extra': dict(self.extra), 'maxima': self.maxima,
        }


# ---------------------------------------------------------------- workers

_W = {}


def _worker_init(modname, tier, seed, env):
    os.environ.update(env)
    mod = importlib.import_module(modname)
    build.install(getattr(mod, 'VARIANT', 'omp'), getattr(mod, 'MPI', 'serial'))
    try:
        import atexit
        from enspara.citation import citation
        atexit.unregister(citation.citation_printer)
    except Exception:
        pass
    import warnings
    warnings.simplefilter('ignore')
    np.seterr(all='ignore')
    if getattr(mod, 'POISON_WORD', None) is not None:
        # NEP-49 allocator: every fresh numpy malloc is filled with this 8-byte word
        _W['poison'] = build.load_poison()
        _W['poison'].install(mod.POISON_WORD)
    _W['mod'] = mod
    _W['tier'] = tier
    _W['seed'] = seed
    if hasattr(mod, 'worker_init'):
        mod.worker_init(tier, seed)


def _worker_run(item):
    idx, kind, payload = item
    mod = _W['mod']
    ctx = Ctx(_W['tier'], _W['seed'])
    t0 = time.time()
    try:
        if kind == 'shard':
            mod.run_shard(payload, ctx)
        else:
            mod.replay(payload, ctx)
        err = None
    except BaseException as e:  # harness error, not a violation
        err = ''.join(traceback.format_exception(type(e), e, e.__traceback__))[-4000:]
    r = ctx.result()
    r['idx'] = idx
    r['err'] = err
    r['wall'] = time.time() - t0
    return r


# ---------------------------------------------------------------- parent

def load_known():
    if not os.path.exists(KNOWN):
        return []
    with open(KNOWN) as f:
        return json.load(f)['findings']


def _budget(tier):
    v = os.environ.get('VERIF_BUDGET_S')
    if v:
        return float(v)
    return 600.0 if tier == 'quick' else 1800.0


def make_pool(mod, tier, seed, nproc):
    env = {'OMP_NUM_THREADS': str(getattr(mod, 'OMP_THREADS', 1)),
           'PYTHONHASHSEED': '0'}
    os.environ.update(env)
    ctx = mp.get_context('fork')
    return ctx.Pool(nproc, initializer=_worker_init,
                    initargs=(mod.__name__, tier, seed, env), maxtasksperchild=None)


def run_property(pid, tier='quick', seed=0, replay_file=None, nproc=None):
    t0 = time.time()
    mod = importlib.import_module('vf.props.' + pid.lower())
    build.ensure_built(prune=(build.REPO == '/repo' and not os.environ.get('VERIF_EVIDENCE_DIR')))
    nproc = nproc or int(os.environ.get('VERIF_NPROC', '16'))
    os.makedirs(EVIDENCE_DIR, exist_ok=True)
    os.makedirs(REPLAY_DIR, exist_ok=True)

    if replay_file:
        with open(replay_file) as f:
            rp = json.load(f)
        if isinstance(rp['case'], dict) and '__shard__' in rp['case']:
            sh = rp['case']['__shard__']
            items = [(0, 'shard', tuple(sh) if isinstance(sh, list) else sh)]
        else:
            items = [(0, 'replay', rp['case'])]
        shards = []
    else:
        shards = list(mod.shards(tier, seed))
        # VERIF_SEED only permutes the work order (the set of cases is fixed)
        order = np.random.RandomState(seed % (2 ** 32)).permutation(len(shards))
        # shards tagged 'pinned' (the recorded inputs of open findings) always run first, so that a budget-capped run
        # still reports every KNOWN-FINDING line
        order = sorted(order, key=lambda i: 0 if (isinstance(shards[int(i)], tuple) and shards[int(i)] and shards[int(i)][0] == 'pinned') else 1)
        items = [(int(i), 'shard', shards[int(i)]) for i in order]

    deadline = t0 + _budget(tier)
    merged = {'evaluations': 0, 'transitions': 0, 'guards': Counter(), 'viol': {},
              'viol_counts': Counter(), 'samples': [], 'extra': Counter(), 'maxima': {}}
    st_chunks, nt_chunks = [], []
    errors = []
    done = 0
    capped = False
    pool = make_pool(mod, tier, seed, min(nproc, max(1, len(items))))
    try:
        it = pool.imap_unordered(_worker_run, items, chunksize=1)
        while done < len(items):
            try:
                r = it.next(timeout=max(1.0, deadline - time.time()))
            except mp.TimeoutError:
                capped = True
                break
            done += 1
            if r['err']:
                errors.append((r['idx'], r['err']))
            merged['evaluations'] += r['evaluations']
            merged['transitions'] += r['transitions']
            merged['guards'].update(r['guards'])
            merged['viol_counts'].update(r['viol_counts'])
            merged['extra'].update(r['extra'])
            for k, v in r['maxima'].items():
                if k not in merged['maxima'] or v > merged['maxima'][k]:
                    merged['maxima'][k] = v
            for sig, v in r['viol'].items():
                key = (r['idx'], v['order'])
                if sig not in merged['viol'] or key < merged['viol'][sig]['key']:
                    merged['viol'][sig] = dict(v, key=key)
            if len(merged['samples']) < 4 and r['samples']:
                merged['samples'].append(r['samples'][0])
            st_chunks.append(r['states'])
            nt_chunks.append(r['nontrivial'])

        # ---- confirm every violation class deterministically
        # (1) replay the single case twice in a worker; (2) if it does not reproduce in isolation the failure may
        # depend on the calls made before it (module-level caches, stale scratch state): replay the whole shard -
        # the exact call history - twice, each time in a brand-new process; only then is it reported, as
        # "history-dependent", with the shard as its replayable artefact.
        confirmed = {}
        unconfirmed = []
        harness_err = list(errors)
        if capped:
            # the budget is spent: drop the shards still queued / running, confirmations get a pool of their own
            # (otherwise they would wait behind all of the remaining work)
            pool.terminate()
            pool.join()
            pool = make_pool(mod, tier, seed, 2)
        if not replay_file:
            for sig, v in sorted(merged['viol'].items()):
                outs = []
                for rep in range(2):
                    rr = pool.apply(_worker_run, ((0, 'replay', v['case']),))
                    outs.append(rr)
                sigs = [set(o['viol']) for o in outs]
                if not any(o['err'] for o in outs) and sig in sigs[0] and sig in sigs[1]:
                    confirmed[sig] = v
                    continue
                shard_idx = v['key'][0]
                hits = 0
                for rep in range(2):
                    fresh = make_pool(mod, tier, seed, 1)
                    try:
                        rr = fresh.apply(_worker_run, ((shard_idx, 'shard', shards[shard_idx]),))
                    finally:
                        fresh.terminate()
                        fresh.join()
                    hits += int(sig in rr['viol'])
                if hits == 2:
                    confirmed[sig] = dict(v, case={'__shard__': jsonable(shards[shard_idx]), 'failing_case': v['case']},
                                          msg='[history-dependent: does not fail in isolation, fails every time the call '
                                              'history of its shard is replayed from a fresh process] ' + v['msg'])
                else:
                    unconfirmed.append((sig, 'violation reproduced neither in isolation (%r) nor by replaying its shard '
                                             'from a fresh process (%d/2): %r' % (sigs, hits, v['case'])))
            if unconfirmed and not confirmed:
                harness_err.extend(unconfirmed)
        else:
            confirmed = merged['viol']
            unconfirmed = []
    finally:
        pool.terminate()
        pool.join()

    states = int(len(np.unique(np.concatenate(st_chunks)))) if st_chunks else 0
    nontriv = int(len(np.unique(np.concatenate(nt_chunks)))) if nt_chunks else 0

    # ---- triage against known findings
    known = [k for k in load_known() if k['property'] == pid]
    open_sigs = {k['signature']: k for k in known if k.get('status') == 'open'}
    new_viol, known_hit = [], []
    for sig, v in sorted(confirmed.items()):
        if sig in open_sigs:
            known_hit.append((sig, v))
        else:
            new_viol.append((sig, v))

    # ---- vacuity guards
    guards_needed = getattr(mod, 'GUARDS', {})
    if guards_needed and tier in guards_needed and isinstance(guards_needed[tier], dict):
        guards_needed = guards_needed[tier]
    vacuous = []
    if not replay_file and not capped:
        for g, need in guards_needed.items():
            if isinstance(need, dict):
                continue
            if merged['guards'].get(g, 0) < need:
                vacuous.append('%s=%d (<%d)' % (g, merged['guards'].get(g, 0), need))

    wall = time.time() - t0
    lines = []
    replay_paths = {}
    for sig, v in new_viol + known_hit:
        name = '%s-%016x.json' % (pid, h64(sig + json.dumps(v['case'], sort_keys=True)))
        path = os.path.join(REPLAY_DIR, name)
        with open(path, 'w') as f:
            json.dump({'property': pid, 'signature': sig, 'case': v['case'], 'msg': v['msg'],
                       'replay_cmd': './check %s --replay %s' % (pid, path)}, f, indent=1)
        replay_paths[sig] = path

    if not replay_file:
        cov = {
            'states': states,
            'transitions': int(merged['transitions']),
            'traces_validated_against_impl': int(merged['evaluations']),
            'samples': merged['samples'] or [{'note': 'no sample recorded'}],
            'evaluations': int(merged['evaluations']),
            'distinct_nontrivial': nontriv,
            'rule': getattr(mod, 'RULE', ''),
            'exhaustive': bool(not capped and not errors),
            'shards_total': len(items), 'shards_completed': done,
            'capped': capped,
            'guards': {k: int(v) for k, v in sorted(merged['guards'].items())},
            'violation_classes': {s: int(merged['viol_counts'][s]) for s in sorted(confirmed)},
            'known_findings_hit': [s for s, _ in known_hit],
        }
        for k, v in merged['extra'].items():
            cov[k] = int(v)
        for k, v in merged['maxima'].items():
            cov[k] = v
        if hasattr(mod, 'evidence_extra'):
            cov.update(mod.evidence_extra(tier))
        ev = {
            'property_id': pid, 'tier': tier, 'seed': int(seed), 'level': 'model_checking',
            'coverage': cov,
            'assumptions': list(getattr(mod, 'ASSUMPTIONS', [])),
            'wall_s': round(wall, 2),
            'violations': len(new_viol),
        }
        os.makedirs(EVIDENCE_DIR, exist_ok=True)
        tmp = os.path.join(EVIDENCE_DIR, pid + '.json.tmp')
        with open(tmp, 'w') as f:
            json.dump(ev, f, indent=1, sort_keys=False)
        os.replace(tmp, os.path.join(EVIDENCE_DIR, pid + '.json'))

    for sig, v in known_hit:
        print('KNOWN-FINDING: property=%s %s [%s] (%d cases; replay=%s)' % (
            pid, open_sigs[sig]['what'], sig, merged['viol_counts'][sig], replay_paths[sig]))
    for sig, v in new_viol:
        print('VIOLATION property=%s replay=%s' % (pid, replay_paths[sig]))
        print('  signature: %s (%d cases)' % (sig, merged['viol_counts'][sig]))
        print('  ' + v['msg'].replace('\n', '\n  ')[:1500])
    for sig, why in (unconfirmed if not replay_file else []):
        if confirmed:
            print('UNCONFIRMED %s: %s' % (sig, why[:600]), file=sys.stderr)
    summ = ('%s tier=%s seed=%d: states=%d transitions=%d evaluations=%d nontrivial=%d '
            'shards=%d/%d wall=%.1fs%s' % (
                pid, tier, seed, states, merged['transitions'], merged['evaluations'], nontriv,
                done, len(items), wall, ' CAPPED' if capped else ''))
    print(summ)
    if merged['guards']:
        print('  guards: ' + ', '.join('%s=%d' % kv for kv in sorted(merged['guards'].items())))
    # a violation that was confirmed by replay stands on its own: harness trouble elsewhere in the run (a crashed shard, a
    # coverage guard that the broken behaviour itself starved) is reported but does not turn the verdict into 'broken check'
    if harness_err:
        for where, e in harness_err[:5]:
            print('HARNESS-ERROR %s: %s' % (where, e), file=sys.stderr)
        if not new_viol:
            return 2
    if vacuous:
        print('HARNESS-%s vacuous exploration: %s' % ('WARNING' if new_viol else 'ERROR', '; '.join(vacuous)), file=sys.stderr)
        if not new_viol:
            return 2
    if new_viol:
        return 1
    if replay_file:
        print('replay: reproduced the known finding(s) listed above, no other violation' if known_hit
              else 'replay: no violation reproduced')
    return 0
