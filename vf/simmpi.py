"""Simulated mpi4py.MPI with a rank scheduler (seam 2.3.2 of DESIGN.md).

enspara's real-MPI code path runs unmodified: `from mpi4py import MPI` resolves to this module
(through vf/stubs/sim/mpi4py).  Each rank is a Python thread executing the real function on its own
stripe of the data; only the thread holding the baton runs.  Every collective is a scheduling point:
the calling rank posts (kind, root, op, payload copy) under its per-rank call index and blocks; the
scheduler picks which runnable rank advances next (= the arrival order at every collective).

Semantics modelled
  * collectives match by per-rank call index and complete when every rank has posted (rendezvous);
    a mismatch in kind/root/op => CollectiveMismatch; "no runnable rank while some rank is unfinished"
    (a rank returned/raised while others wait) => Deadlock;
  * payloads are copied at post time (MPI buffer semantics);
  * Bcast copies root's buffer into the receivers' buffers; shape/dtype must match.
Outside a world (serial code) the communicator behaves as a size-1 world.
"""
import copy
import threading

import numpy as np


class Op:
    def __init__(self, name, fn):
        self.name, self.fn = name, fn

    def __repr__(self):
        return 'MPI.' + self.name


SUM = Op('SUM', lambda vals: _reduce(vals, lambda a, b: a + b))
MAX = Op('MAX', lambda vals: _reduce(vals, lambda a, b: np.maximum(a, b) if isinstance(a, np.ndarray) else max(a, b)))
MIN = Op('MIN', lambda vals: _reduce(vals, lambda a, b: np.minimum(a, b) if isinstance(a, np.ndarray) else min(a, b)))


def _reduce(vals, f):
    acc = vals[0]
    for v in vals[1:]:
        acc = f(acc, v)
    return acc


class SimMPIError(Exception):
    pass


class CollectiveMismatch(SimMPIError):
    pass


class Deadlock(SimMPIError):
    pass


class Aborted(SimMPIError):
    pass


_tls = threading.local()
_world = None          # the active World (one at a time per process)


class World:
    def __init__(self, size, prefix=()):
        self.size = size
        self.prefix = list(prefix)
        self.pos = 0
        self.points = []                 # (n_enabled, chosen)
        self.cv = threading.Condition()
        self.baton = None                # rank allowed to run, None = scheduler
        self.state = ['ready'] * size    # ready | waiting | done | failed
        self.calls = [0] * size          # per-rank collective call index
        self.posts = {}                  # call index -> {rank: record}
        self.results = {}                # (call index, rank) -> value
        self.error = None
        self.log = []                    # completed collectives (kind, root)
        self.ret = [None] * size
        self.steps = 0
        self.max_steps = 20000
        self.exc = [None] * size

    # ---- called from rank threads
    def collective(self, kind, root, op, payload, buf=None):
        rank = _tls.rank
        idx = self.calls[rank]
        self.calls[rank] += 1
        rec = {'kind': kind, 'root': root, 'op': op, 'payload': payload, 'buf': buf}
        with self.cv:
            if self.error is not None:
                raise Aborted(str(self.error))
            self.posts.setdefault(idx, {})[rank] = rec
            self.state[rank] = 'waiting'
            self.baton = None
            self.cv.notify_all()
            while not (self.baton == rank and self.state[rank] == 'ready') and self.error is None:
                self.cv.wait()
            if self.error is not None and (idx, rank) not in self.results:
                raise Aborted(str(self.error))
            return self.results.pop((idx, rank))

    def _complete(self):
        """deliver every collective all ranks have posted"""
        for idx in sorted(self.posts):
            recs = self.posts[idx]
            if len(recs) < self.size:
                continue
            kinds = {(r['kind'], r['root'], None if r['op'] is None else r['op'].name) for r in recs.values()}
            if len(kinds) != 1:
                raise CollectiveMismatch('collective #%d: ranks disagree: %r' % (
                    idx, {rk: (r['kind'], r['root'], r['op']) for rk, r in sorted(recs.items())}))
            kind, root, _ = next(iter(kinds))
            self.log.append((kind, root))
            if kind in ('bcast',):
                val = recs[root]['payload']
                for rk in recs:
                    self.results[(idx, rk)] = val if rk == root else copy.deepcopy(val)
            elif kind == 'Bcast':
                src = recs[root]['payload']
                for rk, r in recs.items():
                    b = r['buf']
                    if rk != root:
                        if b.shape != src.shape or b.dtype != src.dtype:
                            raise CollectiveMismatch('Bcast #%d: rank %d receive buffer %s/%s does not match root %s/%s' % (
                                idx, rk, b.shape, b.dtype, src.shape, src.dtype))
                        b[...] = src
                    self.results[(idx, rk)] = None
            elif kind == 'allgather':
                vals = [recs[rk]['payload'] for rk in range(self.size)]
                for rk in recs:
                    self.results[(idx, rk)] = copy.deepcopy(vals)
            elif kind == 'allreduce':
                vals = [recs[rk]['payload'] for rk in range(self.size)]
                op = recs[0]['op']
                for rk in recs:
                    self.results[(idx, rk)] = copy.deepcopy(op.fn(vals))
            elif kind == 'barrier':
                for rk in recs:
                    self.results[(idx, rk)] = None
            else:
                raise SimMPIError('unknown collective %r' % kind)
            for rk in recs:
                self.state[rk] = 'ready'
            del self.posts[idx]

    def choose(self, n):
        if n <= 1:
            return 0
        if self.pos < len(self.prefix):
            c = self.prefix[self.pos]
            if c >= n:
                raise SimMPIError('schedule choice %d out of range %d' % (c, n))
        else:
            c = 0
        self.pos += 1
        self.points.append((n, c))
        return c

    def run(self, fn):
        global _world
        if _world is not None:
            raise SimMPIError('nested worlds')
        _world = self

        def body(rank):
            _tls.rank = rank
            _tls.world = self
            with self.cv:
                while self.baton != rank and self.error is None:
                    self.cv.wait()
            try:
                if self.error is None:
                    self.ret[rank] = fn(rank)
                state = 'done'
            except Aborted as e:
                self.exc[rank] = e
                state = 'failed'
            except BaseException as e:
                self.exc[rank] = e
                state = 'failed'
            with self.cv:
                self.state[rank] = state
                self.baton = None
                self.cv.notify_all()

        threads = [threading.Thread(target=body, args=(r,), daemon=True) for r in range(self.size)]
        for t in threads:
            t.start()
        try:
            with self.cv:
                while True:
                    try:
                        self._complete()
                    except SimMPIError as e:
                        self.error = e
                        break
                    if any(s == 'failed' for s in self.state):
                        # a rank died: real MPI would hang the others (or abort): report as the rank's error
                        bad = [r for r in range(self.size) if self.state[r] == 'failed'][0]
                        self.error = self.exc[bad]
                        break
                    enabled = [r for r in range(self.size) if self.state[r] == 'ready']
                    if not enabled:
                        if all(s == 'done' for s in self.state):
                            break
                        waiting = [r for r in range(self.size) if self.state[r] == 'waiting']
                        self.error = Deadlock('ranks %r wait at a collective that ranks %r never reach (finished)' % (
                            waiting, [r for r in range(self.size) if self.state[r] == 'done']))
                        break
                    self.steps += 1
                    if self.steps > self.max_steps:
                        # explicit horizon: ranks keep reaching collectives but nobody ever finishes
                        self.error = Deadlock('livelock: more than %d scheduling steps without completion' % self.max_steps)
                        break
                    c = self.choose(len(enabled))
                    r = enabled[c]
                    self.state[r] = 'ready'
                    self.baton = r
                    self.cv.notify_all()
                    while self.baton is not None:
                        self.cv.wait()
                # wake everybody up so that blocked threads can exit
                self.cv.notify_all()
            for t in threads:
                t.join(timeout=10)
        except BaseException as e:
            # abandoned from outside (e.g. the explorer's time limit): make every rank fail at its next collective
            with self.cv:
                if self.error is None:
                    self.error = Aborted('world abandoned: %r' % (e,))
                self.baton = None
                self.cv.notify_all()
            raise
        finally:
            _world = None
        return self


# ---------------------------------------------------------------- the communicator enspara sees

def _copy(v):
    return v.copy() if isinstance(v, np.ndarray) else copy.deepcopy(v)


class _Comm:
    """A rank thread talks to ITS world (thread-local), so that a world that was abandoned (time limit, error)
    makes its still-running ranks fail at their next collective instead of silently turning serial."""

    def _w(self):
        return getattr(_tls, 'world', None)

    def Get_rank(self):
        return _tls.rank if self._w() is not None else 0

    def Get_size(self):
        w = self._w()
        return w.size if w is not None else 1

    def bcast(self, obj, root=0):
        w = self._w()
        if w is None:
            return obj
        return w.collective('bcast', root, None, _copy(obj) if self.Get_rank() == root else None)

    def Bcast(self, buf, root=0):
        w = self._w()
        if w is None:
            return None
        if isinstance(buf, (list, tuple)):
            buf = buf[0]
        return w.collective('Bcast', root, None, np.array(buf, copy=True) if self.Get_rank() == root else None, buf=buf)

    def allgather(self, obj):
        w = self._w()
        if w is None:
            return [obj]
        return w.collective('allgather', None, None, _copy(obj))

    def allreduce(self, obj, op=SUM):
        w = self._w()
        if w is None:
            return obj
        return w.collective('allreduce', None, op, _copy(obj))

    def Barrier(self):
        w = self._w()
        if w is None:
            return None
        return w.collective('barrier', None, None, None)

    barrier = Barrier

    def Abort(self, errorcode=0):
        raise Aborted('Abort called')


COMM_WORLD = _Comm()


def run_world(size, fn, prefix=()):
    """Run fn(rank) on `size` simulated ranks under the arrival-order schedule `prefix`.
    Returns the World (fields: ret, exc, error, points, log)."""
    return World(size, prefix).run(fn)
