"""Reference helpers for the MSM properties (plain NumPy; no scipy.sparse.csgraph)."""
import itertools

import numpy as np


def reach_closure(A):
    """boolean transitive-reflexive closure of adjacency A (n x n bool)"""
    n = len(A)
    R = (np.asarray(A) > 0) | np.eye(n, dtype=bool)
    for k in range(n):
        R = R | (R[:, [k]] & R[[k], :])
    return R


def sccs(A):
    """list of strongly connected components (sorted tuples), in order of smallest member"""
    R = reach_closure(A)
    M = R & R.T
    seen, out = set(), []
    for i in range(len(A)):
        if i in seen:
            continue
        comp = tuple(int(j) for j in np.where(M[i])[0])
        seen.update(comp)
        out.append(comp)
    return out


def strongly_connected(A):
    R = reach_closure(A)
    return bool(R.all())


def all_matrices(n, values):
    for t in itertools.product(values, repeat=n * n):
        yield np.array(t).reshape(n, n)


def loglik(C, T):
    C = np.asarray(C, float)
    T = np.asarray(T, float)
    m = C > 0
    if (T[m] <= 0).any():
        return -np.inf
    return float((C[m] * np.log(T[m])).sum())


def to_dense(M):
    if hasattr(M, 'toarray'):
        return np.asarray(M.toarray())
    return np.asarray(M)


def stationary_residuals(T, pi):
    T = to_dense(T).astype(float)
    pi = np.asarray(pi, float).ravel()
    return {'sum': abs(pi.sum() - 1), 'stat': float(np.abs(pi @ T - pi).max()),
            'neg': float(max(0.0, -pi.min()))}


def detailed_balance_residual(T, pi):
    T = to_dense(T).astype(float)
    pi = np.asarray(pi, float).ravel()
    F = pi[:, None] * T
    return float(np.abs(F - F.T).max())


def simplex_rows(n, denom):
    """all probability vectors of length n with entries k/denom"""
    out = []
    for t in itertools.product(range(denom + 1), repeat=n):
        if sum(t) == denom:
            out.append(tuple(t))
    return out
