"""Reference computations for TPT (dense NumPy solves of the defining equations)."""
import itertools

import numpy as np


def ab_pairs(n):
    """all (A, B) with A, B disjoint non-empty subsets of range(n)"""
    out = []
    for lab in itertools.product((0, 1, 2), repeat=n):
        A = [i for i in range(n) if lab[i] == 1]
        B = [i for i in range(n) if lab[i] == 2]
        if A and B:
            out.append((A, B))
    return out


def committor_ref(T, A, B):
    n = len(T)
    M = np.eye(n) - T
    rhs = np.zeros(n)
    for i in A:
        M[i] = 0
        M[i, i] = 1
        rhs[i] = 0
    for i in B:
        M[i] = 0
        M[i, i] = 1
        rhs[i] = 1
    return np.linalg.solve(M, rhs)


def committor_residual(T, A, B, q):
    q = np.asarray(q, float).ravel()
    n = len(T)
    r = 0.0
    for i in range(n):
        if i in A:
            r = max(r, abs(q[i]))
        elif i in B:
            r = max(r, abs(q[i] - 1))
        else:
            r = max(r, abs(q[i] - T[i] @ q))
    r = max(r, -q.min(), q.max() - 1)
    return float(r)


def mfpt_residual(T, sinks, m, tau):
    m = np.asarray(m, float).ravel()
    r = 0.0
    for i in range(len(T)):
        if i in sinks:
            r = max(r, abs(m[i]))
        else:
            r = max(r, abs(m[i] - tau - T[i] @ m))
    return float(r)
