"""Reference model for clustering results (plain NumPy, never calls libdist)."""
import itertools

import numpy as np

TOL = 1e-9


def np_metric(name):
    if name == 'euclidean':
        return lambda X, y: np.sqrt(((np.asarray(X, float) - np.asarray(y, float)) ** 2).sum(axis=1))
    if name == 'manhattan':
        return lambda X, y: np.abs(np.asarray(X, float) - np.asarray(y, float)).sum(axis=1)
    if name == 'chebyshev':
        return lambda X, y: np.abs(np.asarray(X, float) - np.asarray(y, float)).max(axis=1)
    if name == 'sqeuclid':
        return lambda X, y: ((np.asarray(X, float) - np.asarray(y, float)) ** 2).sum(axis=1)
    raise ValueError(name)


def impl_metric(name):
    """What is handed to enspara: metric names for compiled kernels, python
    callables (written independently of the oracle's formulas) otherwise."""
    if name in ('euclidean', 'manhattan'):
        return name
    if name == 'chebyshev':
        def cheb(X, y):
            X = np.asarray(X, dtype=float)
            return np.array([max(abs(a - b) for a, b in zip(row, np.asarray(y, float)))
                             for row in X], dtype=float).reshape(len(X))
        return cheb
    if name == 'sqeuclid':
        def sq(X, y):
            X = np.asarray(X, dtype=float)
            return np.array([sum((a - b) ** 2 for a, b in zip(row, np.asarray(y, float)))
                             for row in X], dtype=float).reshape(len(X))
        return sq
    raise ValueError(name)


def dist_matrix(X, name):
    m = np_metric(name)
    return np.array([m(X, X[i]) for i in range(len(X))])  # D[i, f] = d(X[f], X[i]) (symmetric)


def lattice_sets(points, maxn, minn=1):
    """all ordered tuples of minn..maxn distinct points"""
    for n in range(minn, maxn + 1):
        for t in itertools.permutations(points, n):
            yield t


def grid(shape):
    return list(itertools.product(*[range(s) for s in shape]))


def as_array(pts, dtype):
    a = np.array(pts, dtype=dtype)
    if a.ndim == 1:
        a = a.reshape(-1, 1)
    return a


def nearest_state(D, centers):
    """reference nearest-center state for center frame list (ties -> first)"""
    sub = D[list(centers)]            # (k, n)
    lab = sub.argmin(axis=0)
    dist = sub.min(axis=0)
    return lab.astype(int), dist.astype(float)


def check_result(X, D, res, want_k=None):
    """Return list of (clause, message) violated by ClusterResult `res` w.r.t. C01."""
    bad = []
    n = len(X)
    try:
        ci = [int(c) for c in res.center_indices]
    except Exception as e:
        return [('center_indices:type', 'center_indices %r not flat ints (%r)' % (res.center_indices, e))]
    k = len(ci)
    if want_k is not None and k != want_k:
        bad.append(('n_centers', 'number of centers %d != %d' % (k, want_k)))
    if any(c < 0 or c >= n for c in ci):
        return bad + [('center_indices:range', 'center index out of range: %r' % (ci,))]
    centers = res.centers
    if len(centers) != k:
        bad.append(('centers:len', 'len(centers)=%d but %d center indices' % (len(centers), k)))
    else:
        for i in range(k):
            if not np.array_equal(np.asarray(centers[i]), X[ci[i]]):
                bad.append(('centers:coords', 'centers[%d]=%r is not X[%d]=%r' % (i, centers[i], ci[i], X[ci[i]])))
                break
    lab = np.asarray(res.assignments)
    dist = np.asarray(res.distances)
    if lab.shape != (n,) or dist.shape != (n,):
        return bad + [('shape', 'labels %s distances %s for n=%d' % (lab.shape, dist.shape, n))]
    if not np.issubdtype(lab.dtype, np.integer):
        bad.append(('labels:dtype', 'labels dtype %s' % lab.dtype))
        return bad
    if lab.min() < 0 or lab.max() >= k:
        return bad + [('labels:range', 'labels %r not in [0,%d)' % (lab.tolist(), k))]
    own = D[np.array(ci)[lab], np.arange(n)]
    if not np.allclose(dist, own, rtol=0, atol=TOL):
        bad.append(('distances:value', 'distances %r != metric distance to assigned center %r (labels %r centers %r)' % (
            dist.tolist(), own.tolist(), lab.tolist(), ci)))
    allc = D[np.array(ci)]            # (k, n)
    if (allc < dist[None, :] - TOL).any():
        c, f = np.argwhere(allc < dist[None, :] - TOL)[0]
        bad.append(('nearest', 'frame %d assigned to center %d at %.6g but center %d (frame %d) is at %.6g' % (
            f, lab[f], dist[f], c, ci[c], allc[c, f])))
    for i in range(k):
        if lab[ci[i]] != i or abs(dist[ci[i]]) > TOL:
            bad.append(('center_label', 'center %d (frame %d) has label %d distance %.6g (centers %r labels %r)' % (
                i, ci[i], lab[ci[i]], dist[ci[i]], ci, lab.tolist())))
            break
    return bad


def cost(dist):
    return float(np.mean(np.square(np.asarray(dist, float))))
