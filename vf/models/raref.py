"""List-of-rows reference model for RaggedArray (plain Python / NumPy semantics per row)."""
import numpy as np


class ModelError(Exception):
    """the model itself rejects the operation (IndexError etc.): the implementation must raise too"""


def mk_rows(lengths, dtype='int64', rank=1, salt=0):
    rows, v = [], salt
    for L in lengths:
        shape = (L,) + (2,) * (rank - 1)
        n = int(np.prod(shape))
        rows.append((np.arange(v, v + n) * 3 + 1).astype(dtype).reshape(shape))
        v += n
    return rows


def _rows_sel(rows, r):
    """row selector -> list of row indices"""
    n = len(rows)
    if isinstance(r, (int, np.integer)):
        if not -n <= r < n:
            raise ModelError('row %d out of range' % r)
        return [int(r) % n]
    if isinstance(r, slice):
        return list(range(*r.indices(n)))
    out = []
    for x in r:
        if not -n <= x < n:
            raise ModelError('row %d out of range' % x)
        out.append(int(x) % n)
    return out


def _col_sel(row, c):
    L = len(row)
    if isinstance(c, (int, np.integer)):
        if not -L <= c < L:
            raise ModelError('column %d out of row of length %d' % (c, L))
        return [row[int(c)]]
    if isinstance(c, slice):
        return list(row[c])
    out = []
    for x in c:
        if not -L <= x < L:
            raise ModelError('column %d out of row of length %d' % (x, L))
        out.append(row[int(x)])
    return out


def getitem(rows, idx):
    """returns expected rows: list (per selected row) of lists of elements"""
    if isinstance(idx, tuple):
        r, c = idx
        if isinstance(r, np.ndarray) and r.ndim == 0:
            r = int(r)
        if isinstance(c, np.ndarray) and c.ndim == 0:
            c = int(c)
        rlist = not isinstance(r, (int, np.integer, slice))
        clist = not isinstance(c, (int, np.integer, slice))
        if rlist and clist:
            # paired fancy indexing
            r, c = list(r), list(c)
            if len(r) != len(c) and len(c) != 1 and len(r) != 1:
                raise ModelError('index arrays of different length')
            if len(c) == 1:
                c = c * len(r)
            if len(r) == 1:
                r = r * len(c)
            vals = []
            for i, j in zip(r, c):
                ri = _rows_sel(rows, i)[0]
                vals.append(_col_sel(rows[ri], j)[0])
            return [vals]
        return [_col_sel(rows[i], c) for i in _rows_sel(rows, r)]
    if isinstance(idx, (int, np.integer)):
        return [list(rows[_rows_sel(rows, idx)[0]])]
    return [list(rows[i]) for i in _rows_sel(rows, idx)]


def canon_value(v):
    a = np.asarray(v)
    return a.tolist()


def canon_rows(exp):
    return [[canon_value(v) for v in row] for row in exp]


def observe(result):
    """('ragged', rows) for a RaggedArray, ('flat', values) for arrays / scalars"""
    if hasattr(result, 'lengths') and hasattr(result, '_data'):
        return ('ragged', [[canon_value(v) for v in row] for row in result])
    if hasattr(result, 'lengths'):
        return ('ragged', [[canon_value(v) for v in row] for row in result])
    a = np.asarray(result)
    if a.dtype == object:
        try:
            a = np.array(a.tolist())
        except Exception:
            return ('flat', [canon_value(x) for x in a])
        if a.dtype == object:
            return ('flat', [canon_value(x) for x in a])
    return ('flat', a.tolist() if a.ndim else [a.tolist()])


def flat_of(exp_rows):
    out = []
    for row in exp_rows:
        out.extend(row)
    return out


def matches(obs, exp, elem_rank=1):
    kind, val = obs
    exp = canon_rows(exp)
    if kind == 'ragged':
        return val == exp
    fl = flat_of(exp)
    if val == fl:
        return True
    # a single selected row may come back as the bare row
    if len(exp) == 1 and val == exp[0]:
        return True
    # rectangular selection returned as a 2-D array
    if val == exp:
        return True
    return False
