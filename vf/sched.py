"""ctypes driver for the gompshim scheduler linked into the 'sched' extension builds."""
import ctypes

from . import build

_libs = {}


def lib(extname):
    if extname not in _libs:
        L = ctypes.CDLL(build.ext_path(extname, 'sched'))
        L.shim_config.argtypes = [ctypes.c_int, ctypes.POINTER(ctypes.c_int), ctypes.c_int, ctypes.c_int]
        L.shim_config.restype = None
        L.shim_trace.argtypes = [ctypes.POINTER(ctypes.c_int), ctypes.POINTER(ctypes.c_int), ctypes.c_int]
        L.shim_trace.restype = ctypes.c_int
        L.shim_regions.restype = ctypes.c_long
        _libs[extname] = L
    return _libs[extname]


def config(extname, T, prefix=(), only=-1):
    arr = (ctypes.c_int * max(1, len(prefix)))(*prefix)
    lib(extname).shim_config(int(T), arr, len(prefix), int(only))


def trace(extname, cap=4096):
    en = (ctypes.c_int * cap)()
    ch = (ctypes.c_int * cap)()
    n = lib(extname).shim_trace(en, ch, cap)
    if n > cap:
        raise RuntimeError('schedule trace overflow (%d decision points)' % n)
    return [(en[i], ch[i]) for i in range(n)]


def regions(extname):
    return int(lib(extname).shim_regions())


def run_with_schedule(extname, T, prefix, fn, only=-1):
    """execute fn() under T simulated threads following `prefix`; returns (points, result)"""
    config(extname, T, prefix, only)
    try:
        res = fn()
    finally:
        pts = trace(extname)
        config(extname, 1, (), -1)
    return pts, res
