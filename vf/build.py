"""Binding of the checks to /repo's working tree.

* Python sources are imported straight from REPO (default /repo).
* The three Cython extensions are cythonized + compiled out of tree into
  /verif/.cache/ext/<hash>/{omp,sched}/ and served through a meta_path finder,
  so nothing is ever written into /repo.
* 'omp'   variant: normal -fopenmp build against libgomp.
* 'sched' variant: same generated C, compiled with -fopenmp (pragmas lowered by
  GCC) but linked against vf/native/gompshim.c instead of libgomp, which gives
  the explorer control over the order in which OpenMP threads run.
* mpi4py: a stub package shadows the broken system one (serial mode -> enspara's
  DummyComm branch; simulated mode -> vf.simmpi communicator).
"""
import hashlib
import importlib.abc
import importlib.machinery
import importlib.util
import os
import shutil
import subprocess
import sys
import sysconfig
import tempfile

VERIF = os.path.dirname(os.path.dirname(os.path.abspath(__file__)))
REPO = os.environ.get('VERIF_REPO', '/repo')
CACHE = os.path.join(VERIF, '.cache')
NATIVE = os.path.join(VERIF, 'vf', 'native')
EXT_SUFFIX = sysconfig.get_config_var('EXT_SUFFIX')

EXTS = {
    'enspara.geometry.libdist': 'enspara/geometry/libdist.pyx',
    'enspara.info_theory.libinfo': 'enspara/info_theory/libinfo.pyx',
    'enspara.msm.libmsm': 'enspara/msm/libmsm.pyx',
}
# which extensions contain OpenMP regions (get a 'sched' variant)
OMP_EXTS = ('enspara.geometry.libdist', 'enspara.info_theory.libinfo')


def _versions():
    import Cython
    import numpy
    gcc = subprocess.run(['gcc', '-dumpfullversion'], capture_output=True,
                         text=True).stdout.strip()
    return 'cy%s-np%s-gcc%s-py%s' % (Cython.__version__, numpy.__version__,
                                     gcc, sys.version_info[:2])


def _file_hash(*paths):
    h = hashlib.sha256()
    for p in paths:
        with open(p, 'rb') as f:
            h.update(f.read())
        h.update(b'\0')
    return h


def ext_hash(name):
    h = _file_hash(os.path.join(REPO, EXTS[name]),
                   os.path.join(NATIVE, 'gompshim.c'))
    h.update(_versions().encode())
    h.update(b'v4')
    return h.hexdigest()[:20]


def _inc_flags():
    import numpy
    return ['-I' + numpy.get_include(),
            '-I' + sysconfig.get_paths()['include']]


def _ext_dir(name):
    return os.path.join(CACHE, 'ext', name.rsplit('.', 1)[1] + '-' + ext_hash(name))


def ext_path(name, variant='omp'):
    return os.path.join(_ext_dir(name), variant,
                        name.rsplit('.', 1)[1] + EXT_SUFFIX)


def _build_one(name):
    """cythonize + compile one extension (both variants)."""
    out = _ext_dir(name)
    base = name.rsplit('.', 1)[1]
    want = ['omp'] + (['sched'] if name in OMP_EXTS else [])
    if all(os.path.exists(ext_path(name, v)) for v in want):
        return out
    tmp = tempfile.mkdtemp(prefix='vfbuild-')
    try:
        pyx = os.path.join(tmp, base + '.pyx')
        shutil.copy(os.path.join(REPO, EXTS[name]), pyx)
        cfile = os.path.join(tmp, base + '.c')
        # enspara's setup.py does not set language_level: use Cython's default
        r = subprocess.run([sys.executable, '-m', 'cython', '--module-name', name,
                            pyx, '-o', cfile], capture_output=True, text=True)
        if r.returncode != 0:
            raise RuntimeError('cython failed for %s:\n%s' % (name, r.stderr))
        obj = os.path.join(tmp, base + '.o')
        cc = ['gcc', '-O2', '-fPIC', '-fopenmp', '-fwrapv', '-Wno-unreachable-code',
              '-w'] + _inc_flags()
        r = subprocess.run(cc + ['-c', cfile, '-o', obj], capture_output=True, text=True)
        if r.returncode != 0:
            raise RuntimeError('gcc failed for %s:\n%s' % (name, r.stderr))
        for v in want:
            os.makedirs(os.path.join(out, v), exist_ok=True)
            so_tmp = os.path.join(tmp, v + EXT_SUFFIX)
            if v == 'omp':
                link = ['gcc', '-shared', obj, '-fopenmp', '-lm', '-o', so_tmp]
            else:
                shim = os.path.join(tmp, 'gompshim.o')
                r = subprocess.run(['gcc', '-O2', '-fPIC', '-c',
                                    os.path.join(NATIVE, 'gompshim.c'), '-o', shim],
                                   capture_output=True, text=True)
                if r.returncode != 0:
                    raise RuntimeError('gcc gompshim failed:\n' + r.stderr)
                link = ['gcc', '-shared', obj, shim, '-lpthread', '-lm', '-o', so_tmp]
            r = subprocess.run(link, capture_output=True, text=True)
            if r.returncode != 0:
                raise RuntimeError('link failed for %s/%s:\n%s' % (name, v, r.stderr))
            os.replace(so_tmp, ext_path(name, v))
    finally:
        shutil.rmtree(tmp, ignore_errors=True)
    return out


def poison_path():
    h = _file_hash(os.path.join(NATIVE, 'poisonalloc.c'))
    h.update(_versions().encode())
    return os.path.join(CACHE, 'native', 'poison-' + h.hexdigest()[:16],
                        'poisonalloc' + EXT_SUFFIX)


def _build_poison():
    p = poison_path()
    if os.path.exists(p):
        return p
    os.makedirs(os.path.dirname(p), exist_ok=True)
    tmp = tempfile.mkdtemp(prefix='vfbuild-')
    try:
        so = os.path.join(tmp, 'p.so')
        r = subprocess.run(['gcc', '-O2', '-fPIC', '-shared', '-w'] + _inc_flags() +
                           [os.path.join(NATIVE, 'poisonalloc.c'), '-o', so],
                           capture_output=True, text=True)
        if r.returncode != 0:
            raise RuntimeError('gcc poisonalloc failed:\n' + r.stderr)
        os.replace(so, p)
    finally:
        shutil.rmtree(tmp, ignore_errors=True)
    return p


def _prune():
    """Drop cached builds that do not correspond to the current tree."""
    root = os.path.join(CACHE, 'ext')
    if not os.path.isdir(root):
        return
    keep = {os.path.basename(_ext_dir(n)) for n in EXTS}
    for d in os.listdir(root):
        if d not in keep:
            shutil.rmtree(os.path.join(root, d), ignore_errors=True)


def ensure_built(names=None, prune=True):
    """Build (in parallel) whatever is missing for /repo's current .pyx files."""
    from concurrent.futures import ThreadPoolExecutor
    names = list(names or EXTS)
    with ThreadPoolExecutor(max_workers=4) as ex:
        futs = [ex.submit(_build_one, n) for n in names] + [ex.submit(_build_poison)]
        for f in futs:
            f.result()
    if prune:
        _prune()


class _ExtFinder(importlib.abc.MetaPathFinder):
    def __init__(self, variant):
        self.variant = variant

    def find_spec(self, fullname, path=None, target=None):
        if fullname in EXTS:
            v = self.variant if fullname in OMP_EXTS else 'omp'
            p = ext_path(fullname, v)
            loader = importlib.machinery.ExtensionFileLoader(fullname, p)
            return importlib.util.spec_from_file_location(fullname, p, loader=loader)
        return None


_installed = None


def install(variant='omp', mpi='serial'):
    """Make `import enspara` resolve to REPO with cached extensions.

    Must be called before enspara is imported.  Idempotent per process."""
    global _installed
    if _installed is not None:
        if _installed != (variant, mpi):
            raise RuntimeError('overlay already installed as %r' % (_installed,))
        return
    for m in list(sys.modules):
        if m == 'enspara' or m.startswith('enspara.') or m == 'mpi4py' or m.startswith('mpi4py.'):
            raise RuntimeError('%s imported before overlay' % m)
    sys.dont_write_bytecode = True
    stub = os.path.join(VERIF, 'vf', 'stubs', mpi)
    sys.path[0:0] = [stub, REPO]
    sys.meta_path.insert(0, _ExtFinder(variant))
    import warnings
    warnings.filterwarnings('ignore', message="mpi4py isn't installed")
    import logging
    logging.disable(logging.CRITICAL)
    _installed = (variant, mpi)
    import enspara
    assert os.path.realpath(os.path.dirname(enspara.__file__)) == \
        os.path.realpath(os.path.join(REPO, 'enspara')), enspara.__file__


def load_poison():
    p = poison_path()
    loader = importlib.machinery.ExtensionFileLoader('poisonalloc', p)
    spec = importlib.util.spec_from_file_location('poisonalloc', p, loader=loader)
    mod = importlib.util.module_from_spec(spec)
    loader.exec_module(mod)
    return mod


if __name__ == '__main__':
    import time
    t = time.time()
    ensure_built()
    print('extensions ready in %.1fs: %s' % (time.time() - t, [os.path.basename(_ext_dir(n)) for n in EXTS]))
