"""Simulated `multiprocessing` as seen from enspara.util.load (seam 2.3.3 of DESIGN.md).

`enspara.util.load` reaches Pool/Array through its module global `mp`; `installed()` swaps
that global for a SimMP object whose Pool executes tasks in-process, in an order chosen by
the explorer.  Every "which task completes next" is a decision point (n_enabled = remaining
tasks, default choice 0 = input order); results are returned in input order as the real pool
does; `initializer` runs once per simulated worker before that worker's first task; tasks
are dealt to workers round-robin in execution order (so the task->worker map varies with the
order).  The explorer reads/sets the schedule through SCHED.
"""
import contextlib
import ctypes
import multiprocessing as real_mp
import os


class Schedule:
    def __init__(self):
        self.reset([])

    def reset(self, prefix):
        self.prefix = list(prefix)
        self.points = []       # (n_enabled, chosen)
        self.pos = 0
        self.log = []          # ('map', n_tasks, n_workers, execution order)

    def choose(self, n_enabled):
        if n_enabled <= 1:
            return 0
        if self.pos < len(self.prefix):
            c = self.prefix[self.pos]
            if c >= n_enabled:
                raise RuntimeError('schedule choice %d out of range %d' % (c, n_enabled))
        else:
            c = 0
        self.pos += 1
        self.points.append((n_enabled, c))
        return c


SCHED = Schedule()
MAX_WORKERS = 4


class _AsyncResult:
    def __init__(self, values, exc):
        self._v, self._e = values, exc

    def get(self, timeout=None):
        if self._e is not None:
            raise self._e
        return self._v

    def wait(self, timeout=None):
        pass

    def ready(self):
        return True

    def successful(self):
        return self._e is None


class SimPool:
    def __init__(self, processes=None, initializer=None, initargs=(), maxtasksperchild=None):
        if processes is None:
            processes = os.cpu_count() or 1
        if processes < 1:
            raise ValueError('Number of processes must be at least 1')
        self.n_workers = min(int(processes), MAX_WORKERS)
        self.initializer, self.initargs = initializer, initargs
        self._inited = set()
        self._closed = False

    def __enter__(self):
        return self

    def __exit__(self, *a):
        self.terminate()

    def close(self):
        self._closed = True

    def terminate(self):
        self._closed = True

    def join(self):
        pass

    def _run(self, func, items, star):
        if self._closed:
            raise ValueError('Pool not running')
        items = list(items)
        n = len(items)
        results = [None] * n
        remaining = list(range(n))
        order = []
        exc = None
        slot = 0
        while remaining:
            c = SCHED.choose(len(remaining))
            i = remaining.pop(c)
            order.append(i)
            w = slot % self.n_workers
            slot += 1
            if self.initializer is not None:
                # a real worker runs the initializer once in its own process; the module global it
                # sets is per-process.  In-process we re-run it whenever the worker changes, which
                # is equivalent as long as the initializer is idempotent (checked by the harness).
                self.initializer(*self.initargs)
                self._inited.add(w)
            try:
                results[i] = func(*items[i]) if star else func(items[i])
            except Exception as e:   # first failing task wins, like Pool.map
                if exc is None:
                    exc = e
        SCHED.log.append(('map', n, self.n_workers, order))
        return results, exc

    def imap(self, func, iterable, chunksize=1):
        r, e = self._run(func, [(x,) for x in iterable], True)
        if e is not None:
            raise e
        return iter(r)

    def imap_unordered(self, func, iterable, chunksize=1):
        # results are handed out in COMPLETION order (the order the scheduler picked)
        items = list(iterable)
        r, e = self._run(func, [(x,) for x in items], True)
        if e is not None:
            raise e
        order = SCHED.log[-1][3]
        return iter([r[i] for i in order])

    def apply(self, func, args=(), kwds=None):
        return func(*args, **(kwds or {}))

    def apply_async(self, func, args=(), kwds=None, callback=None, error_callback=None):
        try:
            return _AsyncResult(func(*args, **(kwds or {})), None)
        except Exception as e:
            return _AsyncResult(None, e)

    def map(self, func, iterable, chunksize=None):
        r, e = self._run(func, iterable, False)
        if e is not None:
            raise e
        return r

    def starmap(self, func, iterable, chunksize=None):
        r, e = self._run(func, iterable, True)
        if e is not None:
            raise e
        return r

    def map_async(self, func, iterable, chunksize=None, callback=None, error_callback=None):
        r, e = self._run(func, iterable, False)
        return _AsyncResult(r, e)

    def starmap_async(self, func, iterable, chunksize=None, callback=None, error_callback=None):
        r, e = self._run(func, iterable, True)
        return _AsyncResult(r, e)


class SimMP:
    """stand-in for the `multiprocessing` module object"""
    Pool = SimPool
    util = real_mp.util
    cpu_count = staticmethod(real_mp.cpu_count)

    @staticmethod
    def Array(typecode_or_type, size_or_initializer, lock=True):
        # plain ctypes array: same buffer protocol / zero initialisation as a lock-free mp.Array
        if isinstance(size_or_initializer, int):
            return (typecode_or_type * size_or_initializer)()
        return (typecode_or_type * len(size_or_initializer))(*size_or_initializer)


@contextlib.contextmanager
def installed():
    from enspara.util import load
    old = load.mp
    load.mp = SimMP
    try:
        yield SCHED
    finally:
        load.mp = old
