"""Regenerates /verif/MANIFEST.json from the property modules present.
Run: /venv/bin/python -m vf.manifest"""
import importlib
import json
import os

from . import build

VERIF = build.VERIF
BASELINE = ("cd /repo && /venv/bin/python -m pytest -ra -q -p no:cacheprovider --timeout=900 "
            "--continue-on-collection-errors")


def main():
    props = [json.loads(l) for l in open(os.path.join(VERIF, 'properties.jsonl'))]
    checks, na = [], []
    hooks_commits = []
    hp = os.path.join(VERIF, 'hook_commits.txt')
    if os.path.exists(hp):
        hooks_commits = [l.split()[0] for l in open(hp) if l.strip() and not l.startswith('#')]
    for p in props:
        pid = p['id']
        path = os.path.join(VERIF, 'vf', 'props', pid.lower() + '.py')
        if not os.path.exists(path):
            na.append({'property_id': pid,
                       'reason': 'check not built yet (model checking applies; see DESIGN.md section 3)'})
            continue
        mod = importlib.import_module('vf.props.' + pid.lower())
        if getattr(mod, 'NOT_CLAIMED', None):
            na.append({'property_id': pid, 'reason': mod.NOT_CLAIMED})
            continue
        checks.append({
            'property_id': pid,
            'quick_cmd': './check %s --tier quick' % pid,
            'thorough_cmd': './check %s --tier thorough' % pid,
            'evidence_file': '/verif/evidence/%s.json' % pid,
            'replay_cmd_template': './check %s --replay {path}' % pid,
            'engine': getattr(mod, 'ENGINE', 'E1-small-scope-enumerator'),
            'level_claimed': {
                'category': 'model_checking',
                'text': getattr(mod, 'LEVEL_TEXT', mod.RULE),
                'design_ref': 'DESIGN.md section 3, ' + pid,
            },
            'level_note': '; '.join(getattr(mod, 'ASSUMPTIONS', [])) or 'none',
            'technique': getattr(mod, 'TECHNIQUE',
                                 'bounded exhaustive enumeration of the implementation '
                                 '(small-scope explicit-state exploration) against a reference model'),
        })
    man = {
        'version': 1,
        'setup_cmd': 'cd /verif && /venv/bin/python -m vf.build',
        'hooks': {
            'guard': 'ENSPARA_VERIF',
            'enable': 'no source hooks: seams are import-time substitutions (mpi4py stub, libgomp shim, '
                      'simulated multiprocessing, NEP-49 allocator) installed by vf/build.py; '
                      './check exports ENSPARA_VERIF=1 for the record',
            'baseline_off_cmd': BASELINE,
            'source_commits': hooks_commits,
            'add_only': True,
        },
        'engines': [
            {'name': 'E1-small-scope-enumerator', 'path': 'vf/core.py',
             'kind_free_text': 'exhaustive enumeration of a finite input/configuration scope, sharded over 16 workers'},
            {'name': 'E2-choice-prefix-dfs', 'path': 'vf/explore.py',
             'kind_free_text': 'stateless DFS over scheduler/environment choices with deviation bound'},
            {'name': 'E3-explicit-state-bfs', 'path': 'vf/explore.py',
             'kind_free_text': 'explicit-state BFS over operation histories replayed on the real object'},
        ],
        'checks': checks,
        'not_applicable': na,
        'notes': 'All checks: ./check <ID> [--tier quick|thorough] [--replay FILE]; evidence in /verif/evidence; '
                 'known findings in /verif/known_findings.json; design in DESIGN.md.',
    }
    with open(os.path.join(VERIF, 'MANIFEST.json'), 'w') as f:
        json.dump(man, f, indent=1)
    print('checks: %s' % [c['property_id'] for c in checks])
    print('not_applicable: %s' % [c['property_id'] for c in na])


if __name__ == '__main__':
    main()
