"""Generic explorers.

E3  bfs():          explicit-state breadth-first search; a state is whatever the caller's
                    `step` returns, deduplicated through `key(state)`; `step` executes the
                    REAL implementation operation and checks the per-transition oracle.
E2  dfs_choices():  stateless choice-prefix DFS with a deviation bound (CHESS-style):
                    `run(prefix)` executes the real code under a controlled scheduler /
                    environment, follows `prefix` then default choice 0, and returns the list
                    of decision points [(n_enabled, chosen), ...] plus an outcome.
"""
import collections


def bfs(initials, actions, step, key, max_depth, on_state=None, max_states=None):
    """initials: iterable of states; actions(state)->iterable of actions;
    step(state, action)->next state or None (None: action rejected/not applicable; the
    oracle for the transition is evaluated inside step).  Returns stats dict."""
    seen = {}
    frontier = collections.deque()
    for s in initials:
        k = key(s)
        if k not in seen:
            seen[k] = 0
            frontier.append((s, 0))
            if on_state:
                on_state(s, 0)
    transitions = 0
    maxd = 0
    capped = False
    while frontier:
        s, d = frontier.popleft()
        if d >= max_depth:
            continue
        for a in actions(s):
            t = step(s, a)
            transitions += 1
            if t is None:
                continue
            k = key(t)
            if k not in seen:
                if max_states is not None and len(seen) >= max_states:
                    capped = True
                    continue
                seen[k] = d + 1
                maxd = max(maxd, d + 1)
                frontier.append((t, d + 1))
                if on_state:
                    on_state(t, d + 1)
    return {'states': len(seen), 'transitions': transitions, 'max_depth': maxd, 'capped': capped,
            'keys': seen}


class Divergence(Exception):
    pass


def dfs_choices(run, bound, on_execution, max_executions=None):
    """CHESS-style iterative exploration.

    run(prefix) -> (points, outcome); points = list of (n_enabled, chosen) actually taken;
    the first len(prefix) chosen values MUST equal prefix (else Divergence: nondeterminism leak).
    A deviation is any non-zero choice.  All executions with <= bound deviations are explored.
    on_execution(choices, points, outcome) is called once per execution."""
    n_exec = 0
    stack = [()]
    capped = False
    while stack:
        prefix = stack.pop()
        points, outcome = run(list(prefix))
        got = tuple(c for _, c in points[:len(prefix)])
        if got != tuple(prefix):
            raise Divergence('replayed prefix %r but execution took %r' % (prefix, got))
        for (ne, c) in points[len(prefix):]:
            if c != 0:
                raise Divergence('non-default choice beyond prefix: %r' % (points,))
        n_exec += 1
        choices = tuple(c for _, c in points)
        on_execution(choices, points, outcome)
        if max_executions is not None and n_exec >= max_executions:
            capped = True
            break
        used = sum(1 for c in prefix if c != 0)
        if used >= bound:
            continue
        for i in range(len(prefix), len(points)):
            ne = points[i][0]
            for alt in range(1, ne):
                stack.append(choices[:i] + (alt,))
    return {'executions': n_exec, 'capped': capped}
