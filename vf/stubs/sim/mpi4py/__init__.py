# simulated-MPI mode: "from mpi4py import MPI" yields vf.simmpi, so enspara takes its real-MPI branch
from vf import simmpi as MPI  # noqa: F401
