# serial mode: no MPI attribute -> "from mpi4py import MPI" raises ImportError -> enspara DummyComm branch
