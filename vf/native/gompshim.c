/* Controlled-scheduler replacement for the 4 libgomp entry points the compiled kernels use
 * (GOMP_parallel, GOMP_barrier, omp_get_num_threads, omp_get_thread_num).
 * GOMP_parallel spawns T pthreads running the compiler-outlined region of the REAL kernel, but only
 * the thread holding the baton runs; threads yield at region start, at GOMP_barrier and at region end.
 * At every yield the scheduler picks the next runnable thread from the choice list supplied through
 * shim_config() (default: choice 0 = lowest runnable id) and records (n_enabled, chosen).
 * only=k >= 0: isolation run - only thread k executes its share of every region (write-set probe). */
#include <pthread.h>
#include <stdlib.h>
#include <string.h>
#define MAXT 16
#define MAXSTEPS 4096
static int g_T = 1;
static int g_sched[MAXSTEPS]; static int g_sched_len = 0;
static int g_trace_enabled[MAXSTEPS]; static int g_trace_choice[MAXSTEPS]; static int g_steps = 0;
static int g_only = -1;
static long g_regions = 0;
typedef struct { void (*fn)(void*); void *data; int id; int state; /*0 ready,1 running,2 at barrier,3 done*/ } simthr;
static simthr thr[MAXT];
static pthread_mutex_t mu = PTHREAD_MUTEX_INITIALIZER;
static pthread_cond_t cv = PTHREAD_COND_INITIALIZER;
static int baton = -1;
static __thread int my_id = 0;
static __thread int in_parallel = 0;
static __thread int inline_region = 0;
void shim_config(int T, const int *sched, int n, int only) {
    g_T = T < 1 ? 1 : (T > MAXT ? MAXT : T);
    g_sched_len = n > MAXSTEPS ? MAXSTEPS : n;
    if (n > 0) memcpy(g_sched, sched, sizeof(int) * g_sched_len);
    g_only = only; g_steps = 0; g_regions = 0;
}
int shim_trace(int *enabled, int *choice, int cap) {
    int n = g_steps < cap ? g_steps : cap;
    memcpy(enabled, g_trace_enabled, sizeof(int) * n); memcpy(choice, g_trace_choice, sizeof(int) * n);
    return g_steps;
}
long shim_regions(void) { return g_regions; }
static void yield_to_scheduler(int newstate) {
    pthread_mutex_lock(&mu);
    thr[my_id].state = newstate; baton = -1; pthread_cond_broadcast(&cv);
    while (baton != my_id) pthread_cond_wait(&cv, &mu);
    thr[my_id].state = 1;
    pthread_mutex_unlock(&mu);
}
static void *runner(void *arg) {
    simthr *t = (simthr *)arg; my_id = t->id; in_parallel = 1;
    pthread_mutex_lock(&mu);
    while (baton != my_id) pthread_cond_wait(&cv, &mu);
    t->state = 1;
    pthread_mutex_unlock(&mu);
    if (g_only < 0 || g_only == my_id) t->fn(t->data);
    pthread_mutex_lock(&mu);
    t->state = 3; baton = -1; pthread_cond_broadcast(&cv);
    pthread_mutex_unlock(&mu);
    return NULL;
}
void GOMP_barrier(void) { if (in_parallel && !inline_region && g_only < 0) yield_to_scheduler(2); }
int omp_get_thread_num(void) { return in_parallel ? my_id : 0; }
int omp_get_num_threads(void) { return in_parallel ? g_T : 1; }
void GOMP_parallel(void (*fn)(void *), void *data, unsigned num_threads, unsigned flags) {
    pthread_t tid[MAXT]; int T = g_T; g_regions++;
    if (T == 1 && g_only <= 0) {            /* single thread: nothing to schedule, run inline */
        int saved_id = my_id, saved_in = in_parallel;
        my_id = 0; in_parallel = 1; inline_region = 1; fn(data); inline_region = 0; my_id = saved_id; in_parallel = saved_in;
        return;
    }
    pthread_mutex_lock(&mu); baton = -1;
    for (int i = 0; i < T; i++) { thr[i].fn = fn; thr[i].data = data; thr[i].id = i; thr[i].state = 0; }
    pthread_mutex_unlock(&mu);
    for (int i = 0; i < T; i++) pthread_create(&tid[i], NULL, runner, &thr[i]);
    for (;;) {
        pthread_mutex_lock(&mu);
        while (baton != -1) pthread_cond_wait(&cv, &mu);
        int en[MAXT], ne = 0, nb = 0, nd = 0;
        for (int i = 0; i < T; i++) { if (thr[i].state == 0) en[ne++] = i; else if (thr[i].state == 2) nb++; else if (thr[i].state == 3) nd++; }
        if (ne == 0 && nb > 0 && nb + nd == T) {
            for (int i = 0; i < T; i++) if (thr[i].state == 2) thr[i].state = 0;
            pthread_mutex_unlock(&mu); continue;
        }
        if (ne == 0) { pthread_mutex_unlock(&mu); break; }
        int c = (g_steps < g_sched_len) ? g_sched[g_steps] : 0; if (c >= ne) c = ne - 1;
        if (g_steps < MAXSTEPS) { g_trace_enabled[g_steps] = ne; g_trace_choice[g_steps] = c; } g_steps++;
        baton = en[c]; pthread_cond_broadcast(&cv);
        pthread_mutex_unlock(&mu);
    }
    for (int i = 0; i < T; i++) pthread_join(tid[i], NULL);
}
