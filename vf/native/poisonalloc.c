#define NPY_NO_DEPRECATED_API NPY_2_0_API_VERSION
#include <Python.h>
#include <numpy/arrayobject.h>
#include <stdlib.h>
#include <string.h>
#include <stdint.h>
static uint64_t g_word = 0;
static long g_mallocs = 0, g_callocs = 0, g_reallocs = 0;
static void fill(void *p, size_t off, size_t n) {
    unsigned char *b = (unsigned char *)p; unsigned char w[8]; memcpy(w, &g_word, 8);
    for (size_t i = off; i < n; i++) b[i] = w[i % 8];
}
static void *p_malloc(void *ctx, size_t size) { g_mallocs++; void *p = malloc(size ? size : 1); if (p) fill(p, 0, size); return p; }
static void *p_calloc(void *ctx, size_t nelem, size_t elsize) { g_callocs++; return calloc(nelem ? nelem : 1, elsize ? elsize : 1); }
static void *p_realloc(void *ctx, void *ptr, size_t new_size) { g_reallocs++; return realloc(ptr, new_size ? new_size : 1); }
static void p_free(void *ctx, void *ptr, size_t size) { free(ptr); }
static PyDataMem_Handler handler = { "verif_poison", 1, { NULL, p_malloc, p_calloc, p_realloc, p_free } };
static PyObject *old_handler = NULL;
static PyObject *install(PyObject *self, PyObject *args) {
    unsigned long long w; if (!PyArg_ParseTuple(args, "K", &w)) return NULL; g_word = (uint64_t)w;
    if (old_handler == NULL) {
        PyObject *cap = PyCapsule_New(&handler, "mem_handler", NULL); if (!cap) return NULL;
        old_handler = PyDataMem_SetHandler(cap); Py_DECREF(cap); if (!old_handler) return NULL;
    }
    Py_RETURN_NONE;
}
static PyObject *uninstall(PyObject *self, PyObject *args) {
    if (old_handler) { PyObject *o = PyDataMem_SetHandler(old_handler); Py_XDECREF(o); Py_CLEAR(old_handler); }
    Py_RETURN_NONE;
}
static PyObject *stats(PyObject *self, PyObject *args) { return Py_BuildValue("lll", g_mallocs, g_callocs, g_reallocs); }
static PyMethodDef methods[] = { {"install", install, METH_VARARGS, ""}, {"uninstall", uninstall, METH_NOARGS, ""}, {"stats", stats, METH_NOARGS, ""}, {NULL} };
static struct PyModuleDef mod = { PyModuleDef_HEAD_INIT, "poisonalloc", NULL, -1, methods };
PyMODINIT_FUNC PyInit_poisonalloc(void) { import_array(); return PyModule_Create(&mod); }
